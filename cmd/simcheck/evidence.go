package main

import (
	"encoding/json"
	"fmt"
	"os"
	"path/filepath"
	"sort"
)

var levels = map[string]string{
	"C09": "fault_enumeration", "C10": "fault_enumeration",
	"C14": "exploration", "C15": "exploration", "C16": "exploration", "C17": "exploration",
}

var rules = map[string]string{
	"C09": "one run = (workload family, parameters, backend, limit kind, limit value k, schedule seed); k is enumerated from 1 to the measured peak demand + 2 (the allocator refuses the k-th unit). distinct_nontrivial counts distinct (cell, event-log hash, switch-sequence hash) among runs in which a fault configuration was present or >= 3 tasks lived.",
	"C10": "one run = (workload, backend, cancellation point k = k-th poll of the context counted over all cores and builtins, schedule seed); k is enumerated from 1 up to the reference run's poll count (capped), plus k beyond completion and deadline cancels. distinct_nontrivial counts distinct (cell incl. k, event-log hash, switch-sequence hash) among runs where the cancel fault was configured or >= 3 tasks lived.",
	"C14": "one run = (program, backend, map-order seed): analyse+compile+run under seeded permutations of every map-range execution; distinct_nontrivial counts distinct (program, event-log hash) among runs in which at least one map-range site used a non-sorted order.",
	"C15": "one run = (generated module graph, backend, host lookup fault, map-order seed); distinct_nontrivial counts distinct (graph+fault, event-log hash) among runs with a non-sorted map order or a fired host fault.",
	"C16": "one run = one history of 1..30 host invocations on one VM (functions, arguments, SpawnSync/SpawnAsync, in-history faults) under one schedule; distinct_nontrivial counts distinct (history, event-log hash, switch-sequence hash).",
	"C17": "one run = (spawn workload shape and size, schedule): seeded random walks over all scheduling points, plus single-deviation sweeps of the default schedule; distinct_nontrivial counts distinct (cell, event-log hash, switch-sequence hash) among runs with >= 3 live tasks (host + >= 2 cores).",
}

func writeEvidence(path, prop, tier string, seed uint64, t *summary, distinct, inter int, wall, buildS, workerWall float64, workers, nviol int, known, newViol []map[string]any, b *build) {
	os.MkdirAll(filepath.Dir(path), 0o755)
	probesZero := []string{}
	var pk []string
	for k := range t.Probes {
		pk = append(pk, k)
	}
	sort.Strings(pk)
	for _, k := range pk {
		if t.Probes[k] == 0 {
			probesZero = append(probesZero, k)
		}
	}
	runsPerHour := 0.0
	if workerWall > 0 {
		runsPerHour = float64(t.Runs) / workerWall * 3600
	}
	samples := make([]any, 0, len(t.Samples))
	for _, s := range t.Samples {
		samples = append(samples, s)
	}
	if len(samples) == 0 {
		samples = append(samples, map[string]any{"note": "no sample recorded"})
	}
	cov := map[string]any{
		"evaluations":                 t.Runs,
		"distinct_nontrivial":         distinct,
		"rule":                        rules[prop],
		"samples":                     samples,
		"planned_runs":                t.Planned,
		"skipped_for_wall_budget":     t.Skipped,
		"distinct_interleavings":      inter,
		"interleaving_measure":        "distinct hashes of the sequence of (task id, yield site) at every task switch, per workload cell",
		"scheduling_decisions":        t.Decisions,
		"task_switches":               t.Switches,
		"vm_interpreter_steps":        t.Steps,
		"simulated_seconds":           float64(t.SimNs) / 1e9,
		"runs_per_hour":               int64(runsPerHour),
		"worker_processes":            workers,
		"faults_fired":                t.Faults,
		"probes":                      t.Probes,
		"probes_stuck_at_zero":        probesZero,
		"workload_mix":                t.Workloads,
		"search_strategies":           t.Strategies,
		"determinism_reruns_in_batch": t.DetChecked,
		"known_findings_seen":         known,
		"new_violations":              newViol,
		"exhaustive":                  false,
		"components_real":             []string{"lexer", "parser", "analyzer", "compiler", "runtime (VM)", "runtime/value", "interpreter", "interpreter/value", "TestingVmScopeAdditions / TestingInterpreterScopeAdditions builtins (print, println, time.sleep)"},
		"components_stub":             []string{"host Executor (VM and interpreter)", "analyzer HostProvider (module text from memory)", "cancel context wrapper (counts polls, fires cancel)", "clock (testing/synctest fake clock)", "sync.RWMutex/Mutex of every product package (modelled by the scheduler)", "goroutine creation (go -> simrt.Go)", "map iteration order (range -> simrt.Iter)", "pick among ready select cases (T6: simrt.SelectFirst)", "context.AfterFunc / time.AfterFunc callbacks (T7: simulator tasks)"},
		"toolchain":                   "go1.26.8 (testing/synctest); product go.mod keeps go 1.21 language semantics",
		"build_seconds":               buildS,
	}
	if len(t.MapSites) > 0 {
		cov["map_range_sites_with_nondefault_order"] = len(t.MapSites)
		cov["map_range_site_hits"] = t.MapSites
	}
	if b != nil && b.sites != nil {
		if ms, ok := b.sites["map_sites"].([]any); ok {
			cov["map_range_sites_instrumented"] = len(ms)
		}
		cov["instrumentation"] = map[string]any{"step_points": b.sites["step_sites"], "wake_points": b.sites["wake_sites"], "go_statements": b.sites["go_sites"], "sync_imports_redirected": b.sites["sync_files"]}
	}
	for k, v := range t.Extra {
		cov["extra_"+k] = v
	}
	ev := map[string]any{
		"property_id": prop,
		"tier":        tier,
		"seed":        int64(seed),
		"level":       levels[prop],
		"coverage":    cov,
		"assumptions": []string{
			"the instrumentation rules T1-T5 (DESIGN.md 1.1) preserve the product's behaviour; any map permutation and any interleaving at the inserted yield points is legal under the Go specification and memory model",
			"the modelled RWMutex follows sync.RWMutex (writer preference; readers blocked at a writer's unlock are admitted first)",
			"runtime differences between go1.23.5 (baseline) and go1.26.8 (simulation) do not matter to this code",
			"a clean batch is evidence, not proof: schedules, faults and workloads are sampled from one seed",
		},
		"wall_s":     wall,
		"violations": nviol,
	}
	raw, _ := json.MarshalIndent(ev, "", " ")
	if err := os.WriteFile(path, raw, 0o644); err != nil {
		fmt.Println("INFRA: cannot write evidence:", err)
		os.Exit(2)
	}
}
