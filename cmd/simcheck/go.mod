module verif.local/simcheck

go 1.23
