// simcheck is the supervisor of the deterministic-simulation checks:
//
//	simcheck run --property C17 --tier quick|thorough [--repo DIR]
//	simcheck replay FILE [--repo DIR]
//	simcheck selftest determinism [--property Cxx]
//
// run: instrument a scratch copy of the working tree, build the worker, fan the
// plan out to worker processes, collect, confirm every violation by replaying
// its minimised file in a fresh process, filter known findings, write
// evidence. Exit 0 held / 1 VIOLATION / 2 INFRA.
package main

import (
	"encoding/json"
	"flag"
	"fmt"
	"os"
	"os/exec"
	"path/filepath"
	"runtime"
	"sort"
	"strconv"
	"strings"
	"sync"
	"time"
)

const verifDir = "/verif"

var goEnv = []string{"GOFLAGS=-mod=mod", "GOPROXY=off", "GOSUMDB=off", "GOTOOLCHAIN=local"}

func infra(format string, a ...any) {
	fmt.Printf("INFRA: "+format+"\n", a...)
	os.Exit(2)
}

type build struct {
	dir    string // scratch root
	worker string
	race   string
	sites  map[string]any
}

func (b *build) cleanup() {
	if b != nil && b.dir != "" && os.Getenv("SIMCHECK_KEEP") == "" {
		os.RemoveAll(b.dir)
	}
}

func run(dir string, env []string, name string, args ...string) (string, error) {
	cmd := exec.Command(name, args...)
	cmd.Dir = dir
	cmd.Env = append(os.Environ(), env...)
	out, err := cmd.CombinedOutput()
	return string(out), err
}

// prepare copies the tree, instruments it and builds the worker binary.
func prepare(repo string, race bool) *build {
	tmpRoot := os.Getenv("SIMCHECK_TMP")
	if tmpRoot == "" {
		tmpRoot = os.TempDir()
	}
	d, err := os.MkdirTemp(tmpRoot, "simcheck-")
	if err != nil {
		infra("mktemp: %v", err)
	}
	b := &build{dir: d}
	if out, err := run("/", nil, "rsync", "-a", "--exclude", ".git", repo+"/", d+"/repo/"); err != nil {
		b.cleanup()
		infra("copy of %s failed: %v\n%s", repo, err, out)
	}
	out, err := run("/", goEnv, filepath.Join(verifDir, "bin/simbuild"), "-dir", d+"/repo", "-report", d+"/sites.json")
	if err != nil {
		b.cleanup()
		infra("instrumentation failed (does the tree compile?): %v\n%s", err, tail(out, 30))
	}
	if raw, err := os.ReadFile(d + "/sites.json"); err == nil {
		json.Unmarshal(raw, &b.sites)
	}
	os.MkdirAll(d+"/h", 0o755)
	if out, err := run("/", nil, "rsync", "-a", "--exclude", "go.mod", "--exclude", "go.sum", "--exclude", "*.test", verifDir+"/harness/", d+"/h/"); err != nil {
		b.cleanup()
		infra("harness copy: %v\n%s", err, out)
	}
	gomod := fmt.Sprintf(`module verif.local/harness

go 1.26.8

require (
	github.com/smarthome-go/homescript/v3 v3.0.0
	verif.local/simrt v0.0.0
)

replace github.com/smarthome-go/homescript/v3 => %s/repo

replace verif.local/simrt => %s/simrt
`, d, verifDir)
	os.WriteFile(d+"/h/go.mod", []byte(gomod), 0o644)
	sum, _ := os.ReadFile(repo + "/go.sum")
	os.WriteFile(d+"/h/go.sum", sum, 0o644)
	b.worker = d + "/w.test"
	if out, err := run(d+"/h", goEnv, "go1.26.8", "test", "-trimpath", "-c", "-o", b.worker, "."); err != nil {
		b.cleanup()
		infra("worker build failed: %v\n%s", err, tail(out, 40))
	}
	if race {
		b.race = d + "/wrace.test"
		if out, err := run(d+"/h", goEnv, "go1.26.8", "test", "-trimpath", "-race", "-c", "-o", b.race, "."); err != nil {
			b.cleanup()
			infra("race worker build failed: %v\n%s", err, tail(out, 40))
		}
	}
	return b
}

func tail(s string, n int) string {
	l := strings.Split(strings.TrimRight(s, "\n"), "\n")
	if len(l) > n {
		l = l[len(l)-n:]
	}
	return strings.Join(l, "\n")
}

type job map[string]any

type violation struct {
	Sig     string         `json:"sig"`
	Class   string         `json:"class"`
	Clause  string         `json:"clause"`
	Msg     string         `json:"msg"`
	Replay  string         `json:"replay"`
	Count   int            `json:"count"`
	MinRuns int            `json:"min_runs"`
	LogHash string         `json:"log_hash"`
	NonZero int            `json:"nonzero_choices"`
	Spec    map[string]any `json:"spec"`
}

type summary struct {
	Worker      int                `json:"worker"`
	Planned     int                `json:"planned"`
	Runs        int                `json:"runs"`
	Skipped     int                `json:"skipped_budget"`
	Infra       []string           `json:"infra"`
	Violations  []violation        `json:"violations"`
	Distinct    []string           `json:"distinct"`
	Interleav   []string           `json:"interleavings"`
	Faults      map[string]int     `json:"faults"`
	Probes      map[string]int     `json:"probes"`
	Workloads   map[string]int     `json:"workloads"`
	Strategies  map[string]int     `json:"strategies"`
	OwnProcess  []json.RawMessage  `json:"own_process"`
	MapSites    map[string]int     `json:"map_sites"`
	Decisions   int64              `json:"decisions"`
	Switches    int64              `json:"switches"`
	Steps       int64              `json:"steps"`
	SimNs       int64              `json:"sim_ns"`
	WallS       float64            `json:"wall_s"`
	Samples     []map[string]any   `json:"samples"`
	DetChecked  int                `json:"determinism_rechecked"`
	DetMismatch []string           `json:"determinism_mismatch"`
	Hashes      map[string]string  `json:"hashes"`
	Replay      map[string]any     `json:"replay"`
	Extra       map[string]float64 `json:"extra"`
}

type crashInfo struct {
	Idx  int             `json:"idx"`
	Spec json.RawMessage `json:"spec"`
	Sig  string
	Msg  string
}

// fatalSignature derives a stable signature part from a Go runtime crash log:
// the kind of fatal error and the first repository frame of the running goroutine.
func fatalSignature(log string) (string, string) {
	kind := "other"
	msg := ""
	for _, ln := range strings.Split(log, "\n") {
		if strings.HasPrefix(ln, "fatal error: ") || strings.HasPrefix(ln, "panic: ") {
			msg = ln
			switch {
			case strings.Contains(ln, "stack overflow"):
				kind = "stack-overflow"
			case strings.Contains(ln, "concurrent map"):
				kind = "concurrent-map"
			case strings.Contains(ln, "all goroutines are asleep"):
				kind = "go-deadlock"
			case strings.HasPrefix(ln, "panic: "):
				kind = "panic"
			}
			break
		}
	}
	if msg == "" {
		return "", ""
	}
	if strings.Contains(msg, "out of memory") || strings.Contains(msg, "cannot allocate") {
		return "oom", msg // resource exhaustion of the worker process, not a verdict about one run
	}
	frame := "?"
	lines := strings.Split(log, "\n")
	for i, ln := range lines {
		if strings.HasPrefix(ln, "goroutine ") && strings.Contains(ln, "[running") {
			for _, f := range lines[i+1:] {
				if f == "" {
					break
				}
				if f[0] == '\t' {
					continue
				}
				if j := strings.Index(f, "smarthome-go/homescript/v3/homescript/"); j >= 0 {
					fn := f[j+len("smarthome-go/homescript/v3/homescript/"):]
					if k := strings.IndexAny(fn, "({"); k > 0 {
						fn = fn[:k]
					}
					frame = fn
					break
				}
			}
			break
		}
	}
	return "process-fatal:" + kind + "@" + frame, msg
}

// startWorker runs one worker process; returns its summary, or an error text,
// or (for a process-fatal error inside a run) the run that killed it.
func startWorker(bin string, dir string, j job, tag string, extraEnv []string, memKB int) (*summary, string, *crashInfo) {
	jobPath := filepath.Join(dir, "job-"+tag+".json")
	outPath := filepath.Join(dir, "out-"+tag+".json")
	logPath := filepath.Join(dir, "log-"+tag+".txt")
	os.Remove(outPath)
	os.Remove(outPath + ".current")
	j["out"] = outPath
	raw, _ := json.Marshal(j)
	os.WriteFile(jobPath, raw, 0o644)
	sh := fmt.Sprintf("ulimit -v %d; exec %s -test.run '^TestWorker$' -test.timeout 0 -test.count 1 > %s 2>&1", memKB, bin, logPath)
	cmd := exec.Command("sh", "-c", sh)
	cmd.Dir = dir
	cmd.Env = append(append(os.Environ(), "SIMCHECK_JOB="+jobPath, "SIMCHECK_REPO="+filepath.Join(dir, "repo")), extraEnv...)
	err := cmd.Run()
	data, rerr := os.ReadFile(outPath)
	if err != nil || rerr != nil {
		lg, _ := os.ReadFile(logPath)
		if cur, cerr := os.ReadFile(outPath + ".current"); cerr == nil {
			var ci crashInfo
			if json.Unmarshal(cur, &ci) == nil {
				if sig, msg := fatalSignature(string(lg)); sig != "" {
					ci.Sig, ci.Msg = sig, msg
					return nil, "", &ci
				}
			}
		}
		return nil, fmt.Sprintf("worker %s: %v; log tail:\n%s", tag, err, tail(string(lg), 40)), nil
	}
	var s summary
	if e := json.Unmarshal(data, &s); e != nil {
		return nil, fmt.Sprintf("worker %s: bad summary: %v", tag, e), nil
	}
	return &s, "", nil
}

type knownFinding struct {
	Property  string `json:"property"`
	Status    string `json:"status"` // known | fixed
	Signature string `json:"signature"`
	WhatFails string `json:"what_fails"`
	Commit    string `json:"commit,omitempty"`
}

func loadKnown() []knownFinding {
	raw, err := os.ReadFile(filepath.Join(verifDir, "known_findings.json"))
	if err != nil {
		return nil
	}
	var k struct {
		Findings []knownFinding `json:"findings"`
	}
	if err := json.Unmarshal(raw, &k); err != nil {
		infra("known_findings.json: %v", err)
	}
	return k.Findings
}

func main() {
	if len(os.Args) < 2 {
		fmt.Println("usage: simcheck run|replay|selftest ...")
		os.Exit(2)
	}
	switch os.Args[1] {
	case "run":
		cmdRun(os.Args[2:])
	case "replay":
		cmdReplay(os.Args[2:])
	case "selftest":
		cmdSelftest(os.Args[2:])
	case "warm":
		// build everything once so that the compiler caches are hot (setup_cmd)
		b := prepare("/repo", true)
		b.cleanup()
		fmt.Println("warm: instrumented build of the worker (plain and -race) succeeded")
	default:
		fmt.Println("unknown command", os.Args[1])
		os.Exit(2)
	}
}

func seedFromEnv() uint64 {
	if s := os.Getenv("VERIF_SEED"); s != "" {
		if v, err := strconv.ParseUint(s, 10, 64); err == nil {
			return v
		}
		if v, err := strconv.ParseInt(s, 10, 64); err == nil {
			return uint64(v)
		}
	}
	return 1
}

func cmdRun(args []string) {
	fs := flag.NewFlagSet("run", flag.ExitOnError)
	prop := fs.String("property", "", "property id")
	tier := fs.String("tier", "", "quick|thorough")
	repo := fs.String("repo", "/repo", "tree to check")
	workers := fs.Int("workers", 0, "worker processes (default: number of CPUs)")
	evidence := fs.String("evidence", "", "evidence file (default /verif/evidence/<id>.json)")
	fs.Parse(args)
	if *tier == "" {
		*tier = os.Getenv("VERIF_TIER")
	}
	if *tier == "" {
		*tier = "quick"
	}
	if *prop == "" {
		infra("--property required")
	}
	seed := seedFromEnv()
	fmt.Printf("VERIF_SEED=%d property=%s tier=%s repo=%s\n", seed, *prop, *tier, *repo)
	start := time.Now()
	nw := *workers
	if nw <= 0 {
		nw = runtime.NumCPU()
	}
	evPath := *evidence
	if evPath == "" {
		evPath = filepath.Join(verifDir, "evidence", *prop+".json")
	}
	replayDir := filepath.Join(verifDir, "replays")
	if *repo != "/repo" {
		replayDir = filepath.Join(os.TempDir(), "simcheck-replays-"+strconv.Itoa(os.Getpid()))
	}
	b := prepare(*repo, *prop == "C17")
	defer b.cleanup()
	buildS := time.Since(start).Seconds()

	// A tree that breaks the property badly makes most runs fail; the first few
	// dozen violating runs per worker say everything, the rest is skipped.
	maxBad := 24
	if *tier == "thorough" {
		maxBad = 200
	}
	ownCount := 0
	// fan out
	sums := make([]*summary, nw)
	errs := make([]string, nw)
	var crashes []crashInfo
	var crashMu sync.Mutex
	oomRestarts := 0
	var wg sync.WaitGroup
	for i := 0; i < nw; i++ {
		wg.Add(1)
		go func(i int) {
			defer wg.Done()
			var skip []int
			for attempt := 0; attempt < 12; attempt++ {
				j := job{"mode": "run", "property": *prop, "tier": *tier, "seed": seed, "worker": i, "workers": nw, "replay_dir": replayDir, "race_bin": b.race, "skip": skip, "max_bad": maxBad}
				var ci *crashInfo
				sums[i], errs[i], ci = startWorker(b.worker, b.dir, j, strconv.Itoa(i), []string{"GOMAXPROCS=1"}, 6_000_000)
				if ci == nil {
					return
				}
				skip = append(skip, ci.Idx)
				if ci.Sig == "oom" {
					// the worker process ran out of memory (leaked goroutines of many violating
					// runs): restart it behind that run; not a verdict
					crashMu.Lock()
					oomRestarts++
					crashMu.Unlock()
					continue
				}
				// a run killed the worker process: that is a host crash of that run
				crashMu.Lock()
				crashes = append(crashes, *ci)
				crashMu.Unlock()
			}
			errs[i] = fmt.Sprintf("worker %d: more than 12 runs killed the process; giving up on its share", i)
		}(i)
	}
	wg.Wait()
	for _, e := range errs {
		if e != "" {
			b.cleanup()
			infra("%s", e)
		}
	}

	// specs that have to be the first thing a process does: one worker process each, 16 at a time
	if len(sums) > 0 && sums[0] != nil && len(sums[0].OwnProcess) > 0 {
		own := sums[0].OwnProcess
		extra := make([]*summary, len(own))
		sem := make(chan struct{}, nw)
		var wg2 sync.WaitGroup
		for k := range own {
			wg2.Add(1)
			go func(k int) {
				defer wg2.Done()
				sem <- struct{}{}
				defer func() { <-sem }()
				specFile := filepath.Join(b.dir, fmt.Sprintf("own-%d.json", k))
				os.WriteFile(specFile, own[k], 0o644)
				j := job{"mode": "one", "property": *prop, "tier": *tier, "seed": seed, "worker": k, "workers": 1, "file": specFile, "replay_dir": replayDir, "race_bin": b.race}
				s1, e1, ci := startWorker(b.worker, b.dir, j, fmt.Sprintf("own%d", k), []string{"GOMAXPROCS=1"}, 6_000_000)
				if e1 == "" && ci == nil {
					extra[k] = s1
				}
			}(k)
		}
		wg2.Wait()
		for _, s1 := range extra {
			if s1 != nil {
				s1.Planned = 0
				sums = append(sums, s1)
			}
		}
		ownCount = len(own)
	}

	// merge
	total := &summary{Faults: map[string]int{}, Probes: map[string]int{}, Workloads: map[string]int{}, Strategies: map[string]int{}, MapSites: map[string]int{}, Extra: map[string]float64{}}
	if oomRestarts > 0 {
		total.Extra["worker_restarts_after_out_of_memory"] = float64(oomRestarts)
	}
	if ownCount > 0 {
		total.Extra["runs_in_a_process_of_their_own"] = float64(ownCount)
	}
	distinct := map[string]bool{}
	inter := map[string]bool{}
	bySig := map[string]*violation{}
	var infraMsgs, detMis, allReplays []string
	var maxWall float64
	for _, s := range sums {
		if s.Planned > 0 {
			total.Planned = s.Planned + ownCount
		}
		total.Runs += s.Runs
		total.Skipped += s.Skipped
		total.Decisions += s.Decisions
		total.Switches += s.Switches
		total.Steps += s.Steps
		total.SimNs += s.SimNs
		total.DetChecked += s.DetChecked
		detMis = append(detMis, s.DetMismatch...)
		infraMsgs = append(infraMsgs, s.Infra...)
		if s.WallS > maxWall {
			maxWall = s.WallS
		}
		for k, v := range s.Faults {
			total.Faults[k] += v
		}
		for k, v := range s.Probes {
			total.Probes[k] += v
		}
		for k, v := range s.Workloads {
			total.Workloads[k] += v
		}
		for k, v := range s.Strategies {
			total.Strategies[k] += v
		}
		for k, v := range s.MapSites {
			total.MapSites[k] += v
		}
		for k, v := range s.Extra {
			total.Extra[k] += v
		}
		for _, d := range s.Distinct {
			distinct[d] = true
		}
		for _, d := range s.Interleav {
			inter[d] = true
		}
		if len(total.Samples) < 4 {
			total.Samples = append(total.Samples, s.Samples...)
		}
		for _, v := range s.Violations {
			v := v
			if v.Replay != "" {
				allReplays = append(allReplays, v.Replay)
			}
			if cur, ok := bySig[v.Sig]; ok {
				cur.Count += v.Count
				if cur.Replay == "" || v.Replay != "" && v.NonZero < cur.NonZero {
					c := cur.Count
					*cur = v
					cur.Count = c
				}
			} else {
				bySig[v.Sig] = &v
			}
		}
	}
	for _, ci := range crashes {
		sig := *prop + "|host-crash|no-host-crash|" + ci.Sig
		if cur, ok := bySig[sig]; ok {
			cur.Count++
			continue
		}
		var spec map[string]any
		json.Unmarshal(ci.Spec, &spec)
		rf := map[string]any{"property": *prop, "signature": sig, "class": "host-crash", "clause": "no-host-crash",
			"message": "the run killed the worker process: " + ci.Msg, "log_hash": "", "spec": spec, "trace_tail": []string{}, "minimisation_runs": 0}
		raw, _ := json.MarshalIndent(rf, "", " ")
		os.MkdirAll(replayDir, 0o755)
		name := filepath.Join(replayDir, fmt.Sprintf("%s-%s.w0.json", *prop, hash8(sig)))
		os.WriteFile(name, raw, 0o644)
		allReplays = append(allReplays, name)
		bySig[sig] = &violation{Sig: sig, Class: "host-crash", Clause: "no-host-crash", Msg: "the run killed the worker process: " + ci.Msg, Replay: name, Count: 1, Spec: spec}
	}
	if len(detMis) > 0 && len(bySig) == 0 {
		b.cleanup()
		infra("NONDETERMINISM: same spec, different event log: %v", detMis)
	}
	if len(detMis) > 0 {
		// Runs of this tree violate the property (reported and replay-confirmed below); that some
		// repetitions also differ in their event log is most likely the same defect seen from another
		// angle (state the product carries from run to run) and must not hide the verdicts.
		fmt.Printf("NOTE: %d repetition(s) with identical choices had a different event log (e.g. %s)\n", len(detMis), detMis[0])
	}
	if len(infraMsgs) > 0 && len(bySig) == 0 {
		b.cleanup()
		infra("%d run(s) hit a simulator/harness problem, e.g.: %s", len(infraMsgs), infraMsgs[0])
	}
	if len(infraMsgs) > 0 {
		// violations were found as well: they are confirmed by replay below and reported;
		// the runs the simulator could not judge are only mentioned
		fmt.Printf("NOTE: %d run(s) could not be judged (simulator bound), e.g.: %s\n", len(infraMsgs), infraMsgs[0])
	}

	// keep one replay file per signature under its canonical name
	for _, v := range bySig {
		if v.Replay == "" {
			continue
		}
		canon := v.Replay[:strings.LastIndex(v.Replay, ".w")] + ".json"
		os.Rename(v.Replay, canon)
		v.Replay = canon
	}
	for _, f := range allReplays {
		if strings.Contains(filepath.Base(f), ".w") {
			os.Remove(f)
		}
	}

	// confirm each violation in a fresh process
	known := loadKnown()
	var sigs []string
	for s := range bySig {
		sigs = append(sigs, s)
	}
	sort.Strings(sigs)
	exit := 0
	var knownSeen, newViol []map[string]any
	// fresh-process replays run side by side (a broken tree can produce dozens of signatures)
	type confirmation struct {
		notes []string
		infra string
	}
	confs := make([]confirmation, len(sigs))
	{
		sem := make(chan struct{}, 8)
		var wg sync.WaitGroup
		for i, sig := range sigs {
			wg.Add(1)
			go func(i int, sig string) {
				defer wg.Done()
				sem <- struct{}{}
				defer func() { <-sem }()
				v := bySig[sig]
				c := &confs[i]
				if v.Replay == "" {
					c.infra = fmt.Sprintf("violation %s has no replay file", sig)
					return
				}
				rs, e, ci := startWorker(b.worker, b.dir, job{"mode": "replay", "file": v.Replay, "race_bin": b.race}, "replay-"+hash8(sig), []string{"GOMAXPROCS=1"}, 6_000_000)
				if e != "" {
					c.infra = fmt.Sprintf("replay of %s failed: %s", v.Replay, e)
					return
				}
				var gotSig, gotHash string
				if ci != nil {
					gotSig = *prop + "|host-crash|no-host-crash|" + ci.Sig
				} else {
					gotSig, _ = rs.Replay["sig"].(string)
					gotHash, _ = rs.Replay["log_hash"].(string)
				}
				freeMode := strings.Contains(sig, "|free:") || v.Class == "data-race"
				if ps, ok := v.Spec["params"].(map[string]any); ok {
					if f, ok := ps["free"].(float64); ok && f == 1 {
						freeMode = true // (the run was executed under the race detector with real goroutines)
					}
				}
				replayMode := ""
				if rs != nil {
					replayMode = rs.Hashes["replay_mode"]
				}
				switch {
				case gotSig == sig && strings.HasPrefix(replayMode, "process-history:"):
					// The run alone is clean in a fresh process; after the runs that preceded it in its worker it
					// fails the same way: the product carries state from one run to the next inside a process.
					c.notes = append(c.notes, fmt.Sprintf("NOTE: %s reproduces only after the %s run(s) that preceded it in its worker process (process-level state in the product); `simcheck replay` re-executes them", v.Replay, strings.TrimPrefix(replayMode, "process-history:")))
				case gotSig == sig && (gotHash == v.LogHash || freeMode):
					// reproduced exactly
				case gotSig == sig:
					// Same violation, different event log: the product itself carries state from earlier
					// runs of the worker process into this one (that is usually the defect being reported).
					c.notes = append(c.notes, fmt.Sprintf("NOTE: replay of %s reproduces the violation; its event log differs from the one recorded in the worker process (process-level state in the product)", v.Replay))
				case freeMode:
					// free mode runs real goroutines under an uncontrolled schedule (DESIGN 1.6): the report stands
					// on the race detector's / the runtime's own evidence even if a bounded number of reruns does not hit the window again
					c.notes = append(c.notes, fmt.Sprintf("NOTE: %s was observed under an uncontrolled schedule and did not recur in 12 reruns", v.Replay))
				case *prop == "C14":
					// C14 is the property that forbids exactly this: the same sources, the same host and the same
					// simulator choices gave a different result. Either further fresh processes show it again, or
					// something that no seam controls decides (Go's pick among ready select cases, a goroutine
					// started inside the standard library); the recorded run stands as the evidence.
					again := 0
					for k := 0; k < 3 && again == 0; k++ {
						rs2, e2, ci2 := startWorker(b.worker, b.dir, job{"mode": "replay", "file": v.Replay, "race_bin": b.race}, fmt.Sprintf("replay-%s-%d", hash8(sig), k), []string{"GOMAXPROCS=1"}, 6_000_000)
						if e2 == "" && ci2 == nil && rs2 != nil {
							if s2, _ := rs2.Replay["sig"].(string); s2 == sig {
								again = k + 2
							}
						}
					}
					if again > 0 {
						c.notes = append(c.notes, fmt.Sprintf("NOTE: %s is not reproduced by every replay (reproduced by replay %d): the result of this run depends on something no simulator seam controls", v.Replay, again))
					} else {
						c.notes = append(c.notes, fmt.Sprintf("NOTE: %s was recorded in the worker but 4 replays with the same choices (alone and after the runs that preceded it) gave the baseline result: the result depends on something no simulator seam controls; the recorded outputs are in the replay file", v.Replay))
					}
				default:
					c.infra = fmt.Sprintf("NONDETERMINISM: replay of %s in a fresh process gave sig=%q hash=%s, recorded sig=%q hash=%s", v.Replay, gotSig, gotHash, sig, v.LogHash)
				}
			}(i, sig)
		}
		wg.Wait()
	}
	// A violation counts when its replay file reproduces it in a fresh process. When some do and some do
	// not, the confirmed ones are reported and the others are mentioned (a tree with state that moves from
	// run to run can fail in more ways than can be pinned down); when none does, nothing can be concluded.
	nConfirmed := 0
	firstInfra := ""
	for _, c := range confs {
		if c.infra == "" {
			nConfirmed++
		} else if firstInfra == "" {
			firstInfra = c.infra
		}
	}
	if firstInfra != "" && nConfirmed == 0 {
		b.cleanup()
		infra("%s", firstInfra)
	}
	for i, sig := range sigs {
		v := bySig[sig]
		if confs[i].infra != "" {
			fmt.Printf("NOTE: not reported, because its replay did not reproduce it: %s (%s)\n", sig, confs[i].infra)
			continue
		}
		for _, n := range confs[i].notes {
			fmt.Println(n)
		}
		matched := false
		for _, k := range known {
			if k.Property == *prop && k.Status == "known" && k.Signature == sig {
				fmt.Printf("KNOWN-FINDING: property=%s %s [signature %s; seen in %d run(s); replay=%s]\n", *prop, k.WhatFails, sig, v.Count, v.Replay)
				knownSeen = append(knownSeen, map[string]any{"signature": sig, "runs": v.Count, "replay": v.Replay})
				matched = true
			}
		}
		if !matched {
			exit = 1
			fmt.Printf("VIOLATION property=%s replay=%s\n", *prop, v.Replay)
			fmt.Printf("  signature: %s\n  seen in %d run(s); minimised to %d non-default decision(s) in %d runs\n  %s\n", sig, v.Count, v.NonZero, v.MinRuns, v.Msg)
			newViol = append(newViol, map[string]any{"signature": sig, "runs": v.Count, "replay": v.Replay, "message": v.Msg})
		}
	}

	wall := time.Since(start).Seconds()
	writeEvidence(evPath, *prop, *tier, seed, total, len(distinct), len(inter), wall, buildS, maxWall, nw, len(newViol), knownSeen, newViol, b)
	fmt.Printf("%s %s: %d runs (%d planned, %d skipped), %d distinct non-trivial, %d interleavings, %.1fs simulated, %.1fs wall; violations=%d known=%d\n",
		*prop, *tier, total.Runs, total.Planned, total.Skipped, len(distinct), len(inter), float64(total.SimNs)/1e9, wall, len(newViol), len(knownSeen))
	b.cleanup()
	os.Exit(exit)
}

func hash8(s string) string {
	h := uint64(14695981039346656037)
	for i := 0; i < len(s); i++ {
		h ^= uint64(s[i])
		h *= 1099511628211
	}
	return strconv.FormatUint(h, 16)
}

func cmdReplay(args []string) {
	fs := flag.NewFlagSet("replay", flag.ExitOnError)
	repo := fs.String("repo", "/repo", "tree to check")
	var file string
	if len(args) > 0 && !strings.HasPrefix(args[0], "-") {
		file = args[0]
		args = args[1:]
	}
	fs.Parse(args)
	if file == "" && fs.NArg() > 0 {
		file = fs.Arg(0)
	}
	if file == "" {
		infra("replay: file required")
	}
	raw, err := os.ReadFile(file)
	if err != nil {
		infra("%v", err)
	}
	var rf struct {
		Property string `json:"property"`
		Sig      string `json:"signature"`
		LogHash  string `json:"log_hash"`
	}
	json.Unmarshal(raw, &rf)
	b := prepare(*repo, rf.Property == "C17")
	defer b.cleanup()
	abs, _ := filepath.Abs(file)
	rs, e, ci := startWorker(b.worker, b.dir, job{"mode": "replay", "file": abs, "race_bin": b.race}, "replay", []string{"GOMAXPROCS=1"}, 6_000_000)
	if e != "" {
		b.cleanup()
		infra("%s", e)
	}
	var gotSig, gotHash, msg string
	if ci != nil {
		gotSig, msg = rf.Property+"|host-crash|no-host-crash|"+ci.Sig, ci.Msg
	} else {
		gotSig, _ = rs.Replay["sig"].(string)
		gotHash, _ = rs.Replay["log_hash"].(string)
		msg, _ = rs.Replay["msg"].(string)
	}
	fmt.Printf("recorded: sig=%s hash=%s\nreplayed: sig=%s hash=%s\n%s\n", rf.Sig, rf.LogHash, gotSig, gotHash, msg)
	b.cleanup()
	if gotSig != "" && gotSig == rf.Sig {
		fmt.Printf("VIOLATION property=%s replay=%s\n", rf.Property, abs)
		os.Exit(1)
	}
	if gotSig != "" {
		fmt.Printf("a different violation was observed on this tree: %s\n", gotSig)
		os.Exit(1)
	}
	fmt.Println("the recorded violation does not occur on this tree")
	os.Exit(0)
}

func cmdSelftest(args []string) {
	if len(args) < 1 || args[0] != "determinism" {
		infra("selftest: only `determinism` is implemented here (sensitivity: see /verif/mutants/run.sh)")
	}
	fs := flag.NewFlagSet("selftest", flag.ExitOnError)
	propsFlag := fs.String("property", "C09,C10,C14,C15,C16,C17", "properties")
	limit := fs.Int("limit", 64, "runs per property and process")
	repo := fs.String("repo", "/repo", "tree")
	fs.Parse(args[1:])
	b := prepare(*repo, false)
	defer b.cleanup()
	bad := 0
	procs := 0
	for _, prop := range strings.Split(*propsFlag, ",") {
		type res struct {
			tag string
			h   map[string]string
		}
		var all []res
		var mu sync.Mutex
		var wg sync.WaitGroup
		for _, gmp := range []int{1, 4, 16} {
			for rep := 0; rep < 2; rep++ {
				wg.Add(1)
				go func(gmp, rep int) {
					defer wg.Done()
					tag := fmt.Sprintf("%s-g%d-r%d", prop, gmp, rep)
					s, e, _ := startWorker(b.worker, b.dir, job{"mode": "hashes", "property": prop, "tier": "quick", "seed": seedFromEnv(), "limit": *limit}, tag, []string{"GOMAXPROCS=" + strconv.Itoa(gmp)}, 6_000_000)
					if e != "" {
						fmt.Println("INFRA:", e)
						mu.Lock()
						bad++
						mu.Unlock()
						return
					}
					mu.Lock()
					all = append(all, res{tag, s.Hashes})
					procs++
					mu.Unlock()
				}(gmp, rep)
			}
		}
		wg.Wait()
		if len(all) == 0 {
			continue
		}
		ref := all[0]
		diffs := 0
		for _, r := range all[1:] {
			for k, v := range ref.h {
				if r.h[k] != v {
					diffs++
					if diffs <= 5 {
						fmt.Printf("DIFF %s run %s: %s=%s vs %s=%s\n", prop, k, ref.tag, v, r.tag, r.h[k])
					}
				}
			}
		}
		fmt.Printf("determinism %s: %d runs x %d processes (GOMAXPROCS 1/4/16 x 2): %d differences\n", prop, len(ref.h), len(all), diffs)
		bad += diffs
	}
	b.cleanup()
	if bad > 0 {
		fmt.Println("INFRA: NONDETERMINISM")
		os.Exit(2)
	}
	fmt.Printf("determinism self-test passed (%d processes)\n", procs)
}
