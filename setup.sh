#!/bin/sh
# Builds the framework offline from files on disk (MANIFEST.setup_cmd).
set -e
export GOFLAGS=-mod=mod GOPROXY=off GOSUMDB=off GOTOOLCHAIN=local
mkdir -p /verif/bin /verif/evidence /verif/replays
(cd /verif/simbuild && go build -o /verif/bin/simbuild .)
(cd /verif/cmd/simcheck && go build -o /verif/bin/simcheck .)
# warm the go1.26.8 build cache: std, simrt, instrumented product, harness (plain and -race)
/verif/bin/simcheck warm
