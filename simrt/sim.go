// Package simrt is a deterministic cooperative scheduler for real goroutines
// running inside a testing/synctest bubble. Exactly one task runs at a time;
// all others are parked on their own resume channel, blocked on a modelled
// lock, asleep on the bubble's fake clock, or blocked in an operation the
// simulator does not intercept ("blocked-external": channel rendezvous etc.,
// all durable under synctest). Every decision is one Choose on one Source.
package simrt

import (
	"context"
	"crypto/sha256"
	"encoding/hex"
	"fmt"
	"hash"
	"math"
	"runtime"
	"runtime/debug"
	"sort"
	"strings"
	"sync"
	"sync/atomic"
	"testing"
	"testing/synctest"
	"time"
)

var active atomic.Pointer[Sim]

// maxSlice: steps a task may run without reaching a scheduling point before it
// is preempted (so that simulated time, sleepers and deadlines make progress).
const maxSlice = 20000

// fairK: see the ordering of ready tasks in schedule().
const fairK = 64

// Progress is bumped on every scheduler iteration; a watchdog outside the
// bubble reads it with the real clock.
var Progress atomic.Int64

type State int

const (
	StReady    State = iota // parked at a yield
	StWaitLock              // parked, modelled lock unavailable
	StRunning               // the one task the scheduler released
	StBlocked               // was running, bubble went quiescent: blocked in an un-intercepted durable operation
	StSleeping              // announced time.Sleep
	StDone
	StPanicked
	StTrapped // step bound exceeded
	StSettle  // harness: resume me once every other task is done, blocked for good or parked on a lock
)

func (s State) String() string {
	return [...]string{"ready", "waitlock", "running", "blocked-external", "sleeping", "done", "panicked", "trapped", "settling"}[s]
}

type Task struct {
	ID     int
	Name   string
	Host   bool
	Aux    bool // harness helper (canceller): never reported as leftover, does not keep a run alive
	Parent int

	goid      int64
	rgoid     int64
	state     State
	site      string
	blockSite string
	lastRun   int // decision number at which the task was last resumed
	resume    chan struct{}
	wakeAt    time.Time
	steps     int64
	stepLimit int64
	boundName string

	waitLock *lockModel
	waitMode byte // 'R' or 'W'
	granted  bool

	panicVal   string
	panicStack []string
	trapStack  []string
}

type Config struct {
	StepCost       time.Duration // simulated CPU time charged per Step
	QuantumTable   []int64       // quantum choice v>0 preempts after QuantumTable[v-1] steps; empty: sync points only
	ClockJumps     bool          // offer "advance clock to next wake-up" while tasks are ready
	MaxDecisions   int           // simulator bound (INFRA when exceeded)
	MaxSimTime     time.Duration // simulator bound (INFRA when exceeded)
	TaskStepBudget int64         // simulator bound per task (INFRA when exceeded)
	DrainSteps     int64         // steps every remaining task may run after the host has returned
	DrainTime      time.Duration // simulated time the drain may take
	MapPerm        bool          // permute map iteration orders (perm choices); false: sorted
	MapSites       map[string]bool
	KeepLog        int // number of trailing log lines kept
	FullLog        bool
	Paranoid       bool   // verify goroutine identity on every Step (slow)
	StepHook       func() // called on every Step of every task (measurement in reference runs)
}

func DefaultConfig() Config {
	return Config{
		StepCost:       time.Microsecond,
		MaxDecisions:   400000,
		MaxSimTime:     2 * time.Hour,
		TaskStepBudget: 50_000_000,
		DrainSteps:     300_000,
		DrainTime:      10 * time.Second,
		KeepLog:        60,
	}
}

type Sim struct {
	cfg Config
	src Source

	mu      sync.Mutex
	tasks   []*Task
	byGoid  map[int64]*Task
	cur     *Task
	last    *Task
	kick    chan struct{}
	abortCh chan struct{} // closed by finish(): sleeping tasks leave their sleep and exit

	steps         int64
	charged       int64
	quantumOn     bool
	quantum       int64
	armedN        int64
	fastDecisions int64
	jumped        time.Duration // simulated time skipped by explicit clock jumps while tasks were ready
	sliceSteps    int64
	streak        int // consecutive decisions that continued the same task while others were ready

	aborting    atomic.Bool
	free        bool
	freeSeed    uint64
	mapSitesHit map[string]int

	choices   []Choice
	decisions int
	switches  int
	h         hash.Hash
	sw        hash.Hash
	log       []string
	fullLog   []string
	seq       int

	start     time.Time
	deadlines map[string]time.Time
	hostDone  bool
	drainAt   time.Time

	locks   []*lockModel
	lockGen uint64

	Probes map[string]int
	Faults map[string]int

	outcome string
	detail  string
	sig     string
}

var simGen atomic.Uint64

// Result is what one simulated run leaves behind.
type Result struct {
	Outcome   string // ok | deadlock | crash | runaway | deadline | infra
	Detail    string
	Sig       string // culprit part of a violation signature (stable names only)
	Leftover  []TaskInfo
	Tasks     []TaskInfo
	Choices   []Choice
	Decisions int
	Switches  int
	Steps     int64
	SimTime   time.Duration
	LogHash   string
	SwitchSeq string
	LogTail   []string
	FullLog   []string
	Probes    map[string]int
	Faults    map[string]int
	LockHeld  []string
	MapSites  map[string]int // map-range sites that used a non-sorted order, with counts
}

type TaskInfo struct {
	ID    int
	Host  bool
	Name  string
	State string
	Site  string
	Steps int64
	Stack []string
}

func goid() int64 { return int64(getg()) }

// realGoid parses the goroutine id (slow; only for stack attribution at the end of a run).
func realGoid() int64 {
	var buf [64]byte
	n := runtime.Stack(buf[:], false)
	var id int64
	for _, c := range buf[10:n] {
		if c < '0' || c > '9' {
			break
		}
		id = id*10 + int64(c-'0')
	}
	return id
}

// Active reports the running simulation, if any.
func Active() *Sim {
	s := active.Load()
	if s != nil && s.free {
		return nil // free mode: no scheduler, no event log
	}
	return s
}

// Run executes host inside a fresh synctest bubble under a fresh simulator.
func Run(t *testing.T, cfg Config, src Source, host func(s *Sim)) (res *Result) {
	s := &Sim{
		cfg:         cfg,
		src:         src,
		byGoid:      map[int64]*Task{},
		kick:        nil,
		h:           sha256.New(),
		sw:          sha256.New(),
		deadlines:   map[string]time.Time{},
		Probes:      map[string]int{},
		Faults:      map[string]int{},
		lockGen:     simGen.Add(1),
		mapSitesHit: map[string]int{},
	}
	func() {
		defer func() {
			if r := recover(); r != nil {
				msg := fmt.Sprint(r)
				if strings.Contains(msg, "blocked goroutines remain") || strings.Contains(msg, "deadlock") {
					return // leaked blocked-external tasks; already reported as leftover
				}
				if res == nil {
					res = &Result{}
				}
				res.Outcome = "infra"
				res.Detail = "bubble panic: " + msg
			}
		}()
		synctest.Test(t, func(t *testing.T) {
			s.kick = make(chan struct{}, 1)
			s.abortCh = make(chan struct{})
			s.start = time.Now()
			active.Store(s)
			defer active.Store(nil)
			s.spawn("host", true, func() { host(s) })
			s.schedule()
			res = s.finish()
		})
	}()
	active.Store(nil)
	return res
}

// ---- task creation ----

func (s *Sim) spawn(name string, host bool, f func()) *Task {
	s.mu.Lock()
	t := &Task{ID: len(s.tasks), Name: name, Host: host, resume: make(chan struct{}), state: StReady, site: "start", stepLimit: s.cfg.TaskStepBudget, boundName: "sim-task-budget", Parent: -1}
	if s.cur != nil {
		t.Parent = s.cur.ID
		if s.cur.boundName == "drain" { // spawned while the scheduler drains: the drain allowance, from now
			t.stepLimit = s.cfg.DrainSteps
			t.boundName = "drain"
		} else if s.cur.boundName != "sim-task-budget" { // an armed property bound applies to children too
			t.stepLimit = s.armedN
			t.boundName = s.cur.boundName
		}
	}
	if t.Name == "" {
		t.Name = fmt.Sprintf("task%d", t.ID)
	}
	s.tasks = append(s.tasks, t)
	s.mu.Unlock()
	go func() {
		g := goid()
		rg := realGoid()
		s.mu.Lock()
		t.goid = g
		t.rgoid = rg
		s.byGoid[g] = t
		s.mu.Unlock()
		finished := false
		defer func() {
			r := recover()
			s.mu.Lock()
			delete(s.byGoid, g)
			if r != nil && !s.aborting.Load() {
				t.state = StPanicked
				t.panicVal = fmt.Sprint(r)
				t.panicStack = repoFrames(string(debug.Stack()))
			} else if finished || s.aborting.Load() {
				t.state = StDone
			} else {
				t.state = StDone // runtime.Goexit by the program
			}
			s.mu.Unlock()
		}()
		<-t.resume
		if s.aborting.Load() {
			return
		}
		f()
		finished = true
	}()
	return t
}

// Go is the instrumented replacement of a go statement.
func Go(f func()) {
	s := active.Load()
	if s == nil || s.free || s.aborting.Load() {
		go f()
		return
	}
	s.spawn("", false, f)
}

// AfterFunc is context.AfterFunc under the simulator (T7): the standard library would run f on a
// goroutine of its own that no scheduler seam reaches. Here a task waits for ctx and then runs f; until
// ctx is done the task is a helper (it is not "left over" when it never fires).
func AfterFunc(ctx context.Context, f func()) (stop func() bool) {
	s := active.Load()
	if s == nil || s.free || s.aborting.Load() {
		return context.AfterFunc(ctx, f)
	}
	state := 0 // 0 waiting, 1 started, 2 stopped (guarded by s.mu)
	var t *Task
	t = s.spawn("context.AfterFunc", false, func() {
		Blocking()
		<-ctx.Done()
		Woke()
		s.mu.Lock()
		if state == 2 {
			s.mu.Unlock()
			return
		}
		state = 1
		t.Aux = false
		s.mu.Unlock()
		f()
	})
	s.mu.Lock()
	t.Aux = true
	s.mu.Unlock()
	return func() bool {
		s.mu.Lock()
		defer s.mu.Unlock()
		if state != 0 {
			return false
		}
		state = 2
		return true
	}
}

// TimeAfterFunc is time.AfterFunc under the simulator (T7): f runs as a task when the (fake) timer fires.
func TimeAfterFunc(d time.Duration, f func()) *time.Timer {
	s := active.Load()
	if s == nil || s.free || s.aborting.Load() {
		return time.AfterFunc(d, f)
	}
	tm := time.NewTimer(d)
	var t *Task
	t = s.spawn("time.AfterFunc", false, func() {
		Blocking()
		<-tm.C
		Woke()
		s.mu.Lock()
		t.Aux = false
		s.mu.Unlock()
		f()
	})
	s.mu.Lock()
	t.Aux = true
	s.mu.Unlock()
	return tm
}

// GoAux starts a harness helper task.
func (s *Sim) GoAux(name string, f func()) { s.spawn(name, false, f).Aux = true }

// GoNamed starts a task from harness code.
func (s *Sim) GoNamed(name string, host bool, f func()) { s.spawn(name, host, f) }

// ---- yields ----

func (s *Sim) me() *Task {
	g := goid()
	s.mu.Lock()
	t := s.byGoid[g]
	s.mu.Unlock()
	return t
}

// fastContinue: when the yielding task is the only one that could run and no
// timer or deadline is due within the CPU time accrued so far, the scheduler's
// decision is forced (n == 1, nothing recorded), so the task simply continues.
// Whether this path is taken depends on simulator state only, hence replays.
func (s *Sim) fastContinue(t *Task, site string) bool {
	if t != s.cur || s.hostDone || s.outcome != "" {
		return false
	}
	s.mu.Lock()
	defer s.mu.Unlock()
	var earliest time.Time
	sleepers := 0
	for _, o := range s.tasks {
		if o == t {
			continue
		}
		switch o.state {
		case StReady, StRunning, StPanicked, StTrapped:
			return false
		case StBlocked:
			// It may just have been released by the caller (rendezvous) and be
			// on its way to its wake point: only the scheduler can order that.
			return false
		case StWaitLock:
			if o.waitLock.grantable(o) {
				return false
			}
		case StSleeping:
			sleepers++
			if earliest.IsZero() || o.wakeAt.Before(earliest) {
				earliest = o.wakeAt
			}
		}
	}
	if sleepers > 0 && s.cfg.ClockJumps {
		return false
	}
	debt := time.Duration(s.steps-s.charged) * s.cfg.StepCost
	now := time.Now().Add(debt)
	if sleepers > 0 && !now.Before(earliest) {
		return false
	}
	for _, dl := range s.deadlines {
		if !s.fair(now).Before(dl) {
			return false
		}
	}
	if now.Sub(s.start) > s.cfg.MaxSimTime {
		return false
	}
	s.fastDecisions++
	if s.fastDecisions&0xfff == 0 {
		Progress.Add(1)
		if s.fastDecisions > 100_000_000 {
			return false
		}
	}
	t.site = site
	s.hashInts(site, t.ID, 1)
	return true
}

func (s *Sim) park(t *Task, st State, site string) {
	if st == StReady && s.fastContinue(t, site) {
		return
	}
	s.mu.Lock()
	t.state = st
	t.site = site
	s.mu.Unlock()
	select {
	case s.kick <- struct{}{}:
	default:
	}
	<-t.resume
	if s.aborting.Load() {
		runtime.Goexit()
	}
}

// Yield is a scheduling point of the calling task.
func (s *Sim) Yield(site string) {
	if s.free || s.aborting.Load() {
		return
	}
	t := s.me()
	if t == nil {
		return
	}
	s.park(t, StReady, site)
}

// Settle parks the calling (harness) task until nothing else can run: every
// other task is done, blocked in an un-intercepted operation, or waiting for
// a modelled lock. Sleeping tasks are waited for up to maxWait of simulated time.
func (s *Sim) Settle(maxWait time.Duration) {
	if s.free || s.aborting.Load() {
		return
	}
	t := s.me()
	if t == nil {
		return
	}
	s.mu.Lock()
	t.wakeAt = time.Now().Add(maxWait)
	s.mu.Unlock()
	s.park(t, StSettle, "settle")
}

// Others describes every task other than the caller that is not done (aux tasks excluded).
func (s *Sim) Others() []TaskInfo {
	me := s.me()
	s.mu.Lock()
	defer s.mu.Unlock()
	var out []TaskInfo
	for _, t := range s.tasks {
		if t == me || t.Aux || t.state == StDone {
			continue
		}
		out = append(out, TaskInfo{ID: t.ID, Host: t.Host, Name: t.Name, State: t.state.String(), Site: t.site, Steps: t.steps})
	}
	return out
}

// CallerIsProgram: the calling task is neither the host nor a harness helper.
func (s *Sim) CallerIsProgram() bool {
	me := s.me()
	s.mu.Lock()
	defer s.mu.Unlock()
	return me != nil && !me.Host && !me.Aux
}

// LocksHeld lists modelled locks that currently have a holder.
func (s *Sim) LocksHeld() []string {
	s.mu.Lock()
	defer s.mu.Unlock()
	var out []string
	for _, l := range s.locks {
		if h := l.holders(); h != "free" {
			out = append(out, l.name+": "+h)
		}
	}
	return out
}

// LockSites names held locks by stable names (acquisition site functions).
func (s *Sim) LockSites() []string {
	s.mu.Lock()
	defer s.mu.Unlock()
	var out []string
	for _, l := range s.locks {
		if h := l.holderSites(); h != "" {
			out = append(out, h)
		}
	}
	return out
}

// Yield is a scheduling point (no-op outside a simulation).
func Yield(site string) {
	if s := active.Load(); s != nil {
		s.Yield(site)
	}
}

// AtomicPoint is inserted before every statement that operates on a sync/atomic value (T8): lock-free
// code synchronises there, so those are its preemption points.
func AtomicPoint() {
	s := active.Load()
	if s == nil || s.free || s.aborting.Load() {
		return
	}
	if t := s.me(); t == nil || t != s.cur {
		return
	}
	s.Yield("atomic")
}

// Woke is inserted after every sleep and channel operation: a task that was
// released by the clock or by a rendezvous parks again before it touches
// anything, so that the scheduler orders it.
func Woke() {
	s := active.Load()
	if s == nil || s.free || s.aborting.Load() {
		return
	}
	t := s.me()
	if t == nil {
		return
	}
	s.park(t, StReady, "woke")
}

// Blocking is inserted before every channel operation: it names the site for
// the case that the operation blocks for good.
func Blocking() {
	s := active.Load()
	if s == nil || s.free || s.aborting.Load() {
		return
	}
	if t := s.cur; t != nil {
		t.blockSite = callerFunc()
	}
}

// SelectFirst decides which case of a select statement with n channel cases is tried first (T6: the
// instrumenter tries the cases one at a time, without blocking, starting there, and falls back to the
// original statement when none is ready). Go picks uniformly among the ready cases; every pick is
// reachable by starting at it, and the default (0) is source order.
func SelectFirst(n int) int {
	s := active.Load()
	if s == nil || s.free || s.aborting.Load() || n <= 1 {
		return 0
	}
	t := s.me()
	if t == nil || t != s.cur {
		return 0 // a goroutine the simulator does not schedule
	}
	s.Probe("select-with-several-cases")
	return s.Choose(n, "select")
}

// Sleeping announces an imminent time.Sleep(d).
func Sleeping(d time.Duration) {
	s := active.Load()
	if s == nil || s.free || s.aborting.Load() {
		return
	}
	t := s.me()
	if t == nil {
		return
	}
	s.mu.Lock()
	t.state = StSleeping
	t.wakeAt = time.Now().Add(d)
	s.mu.Unlock()
}

// Sleep is an announced sleep for harness code.
func (s *Sim) Sleep(d time.Duration) { SleepFor(d) }

// SleepFor replaces time.Sleep in instrumented packages: an announced sleep on
// the bubble's fake clock that ends early (the task exits) when the run is over,
// so that a task asleep at the end of a run does not outlive it.
func SleepFor(d time.Duration) {
	s := active.Load()
	if s == nil || s.free || s.aborting.Load() {
		time.Sleep(d)
		return
	}
	t := s.me()
	if t == nil {
		time.Sleep(d)
		return
	}
	s.mu.Lock()
	t.state = StSleeping
	t.wakeAt = time.Now().Add(d)
	s.mu.Unlock()
	tm := time.NewTimer(d)
	select {
	case <-tm.C:
	case <-s.abortCh:
		tm.Stop()
		runtime.Goexit()
	}
	s.park(t, StReady, "woke")
}

// Step is inserted at function entries and loop heads of the interpreter and
// VM packages: an instruction-level preemption point and a step counter.
func Step() {
	s := active.Load()
	if s == nil {
		return
	}
	if s.free {
		freeStep()
		return
	}
	if s.aborting.Load() {
		return
	}
	t := s.cur
	if t == nil {
		return
	}
	if s.cfg.Paranoid && t.goid != goid() {
		panic(fmt.Sprintf("simrt: Step by goroutine %d while task %d (g%d) is running", goid(), t.ID, t.goid))
	}
	t.steps++
	s.steps++
	if s.cfg.StepHook != nil {
		s.cfg.StepHook()
	}
	if t.steps > t.stepLimit {
		s.trap(t)
		return
	}
	s.sliceSteps++
	if s.sliceSteps >= maxSlice {
		// Forced preemption (deterministic): a task that never reaches a
		// scheduling point must still let simulated time pass.
		s.sliceSteps = 0
		if me := s.me(); me != nil {
			s.park(me, StReady, "timeslice")
		}
		return
	}
	if s.quantumOn {
		s.quantum--
		if s.quantum <= 0 {
			s.quantumOn = false
			if me := s.me(); me != nil {
				s.park(me, StReady, "quantum")
			}
		}
	}
}

func (s *Sim) trap(t *Task) {
	me := s.me()
	if me == nil {
		return
	}
	me.trapStack = repoFrames(string(debug.Stack()))
	s.park(me, StTrapped, "trap:"+me.boundName)
}

// ArmStepBound: from now on every task (existing or created later) may execute
// at most n further steps; exceeding it ends the run as "runaway:<name>".
func (s *Sim) ArmStepBound(name string, n int64) {
	s.mu.Lock()
	s.armedN = n
	for _, t := range s.tasks {
		t.stepLimit = t.steps + n
		t.boundName = name
	}
	s.mu.Unlock()
}

// DisarmStepBound restores the simulator's own per-task budget.
func (s *Sim) DisarmStepBound() {
	s.mu.Lock()
	for _, t := range s.tasks {
		t.stepLimit = s.cfg.TaskStepBudget
		t.boundName = "sim-task-budget"
	}
	s.mu.Unlock()
}

// SetDeadline ends the run as "deadline:<name>" if simulated time passes d from now.
//
// Deadlines are measured on the fair clock: simulated time minus the time the
// scheduler itself skipped by choosing a clock jump while tasks were ready, so
// that a deschedule chosen by the simulator is never held against the product.
func (s *Sim) SetDeadline(name string, d time.Duration) {
	s.mu.Lock()
	// CPU time already consumed but not yet charged to the fake clock belongs to the past.
	debt := time.Duration(s.steps-s.charged) * s.cfg.StepCost
	s.deadlines[name] = time.Now().Add(debt + d - s.jumped)
	s.mu.Unlock()
}

func (s *Sim) fair(t time.Time) time.Time { return t.Add(-s.jumped) }

func (s *Sim) ClearDeadline(name string) {
	s.mu.Lock()
	delete(s.deadlines, name)
	s.mu.Unlock()
}

// ---- choices, log ----

// Choose draws one decision. Must be called by the running task or the scheduler.
func (s *Sim) Choose(n int, tag string) int {
	if n <= 1 {
		return 0
	}
	v := s.src.Choose(n, tag)
	if v < 0 || v >= n {
		v = 0
	}
	s.choices = append(s.choices, Choice{tag, n, v})
	if v != 0 || tag != "sched" && tag != "quantum" && tag != "perm" {
		s.Logf("choose %s %d/%d", tag, v, n)
	} else {
		s.hashInts(tag, v, n)
	}
	return v
}

func (s *Sim) hashInts(tag string, a, b int) {
	var buf [64]byte
	n := copy(buf[:40], tag)
	buf[n] = 0
	buf[n+1], buf[n+2], buf[n+3], buf[n+4] = byte(a), byte(a>>8), byte(a>>16), byte(a>>24)
	buf[n+5], buf[n+6], buf[n+7], buf[n+8] = byte(b), byte(b>>8), byte(b>>16), byte(b>>24)
	s.h.Write(buf[:n+9])
}

// Logf appends one line to the event log (hashed; the hash is the determinism witness).
func (s *Sim) Logf(format string, args ...any) {
	s.seq++
	id := -1
	if s.cur != nil {
		id = s.cur.ID
	}
	line := fmt.Sprintf("#%d t=%d task=%d ", s.seq, time.Since(s.start).Nanoseconds(), id) + fmt.Sprintf(format, args...)
	s.h.Write([]byte(line))
	s.h.Write([]byte{'\n'})
	if s.cfg.FullLog {
		s.fullLog = append(s.fullLog, line)
	}
	if s.cfg.KeepLog > 0 {
		s.log = append(s.log, line)
		if len(s.log) > 2*s.cfg.KeepLog {
			s.log = append([]string(nil), s.log[len(s.log)-s.cfg.KeepLog:]...)
		}
	}
}

func (s *Sim) Probe(name string)  { s.Probes[name]++ }
func (s *Sim) Fault(name string)  { s.Faults[name]++ }
func (s *Sim) Now() time.Duration { return time.Since(s.start) }
func (s *Sim) TotalSteps() int64  { return s.steps }

// CurSteps is the number of steps the running task itself has executed.
func (s *Sim) CurSteps() int64 {
	if s.cur == nil {
		return 0
	}
	return s.cur.steps
}

// CurID is the id of the running task (-1 for the scheduler).
func (s *Sim) CurID() int {
	if s.cur == nil {
		return -1
	}
	return s.cur.ID
}

// ---- the scheduler ----

func (s *Sim) end(outcome, detail, sig string) {
	if s.outcome == "" {
		s.outcome, s.detail, s.sig = outcome, detail, sig
	}
}

func (s *Sim) schedule() {
	idle := 0
loop:
	for s.outcome == "" {
		synctest.Wait()
		Progress.Add(1)
		if d := time.Duration(s.steps-s.charged) * s.cfg.StepCost; d > 0 {
			s.charged = s.steps
			time.Sleep(d)
			synctest.Wait()
		}
		now := time.Now()
		s.mu.Lock()
		if s.cur != nil && s.cur.state == StRunning {
			s.cur.state = StBlocked
			s.cur.site = "external"
			if s.cur.blockSite != "" {
				s.cur.site = "chan:" + s.cur.blockSite
			}
		}
		s.cur = nil

		var ready, settling []*Task
		var sleepers, hostLive, live int
		var earliest time.Time
		for _, t := range s.tasks {
			switch t.state {
			case StSettle:
				settling = append(settling, t)
			case StPanicked:
				s.end("crash", fmt.Sprintf("task %d (%s) panicked: %s", t.ID, t.Name, t.panicVal), "panic:"+panicCategory(t.panicVal)+"@"+strings.Join(firstN(t.panicStack, 2), "<"))
			case StTrapped:
				top := strings.Join(firstN(t.trapStack, 1), "")
				if t.boundName == "sim-task-budget" {
					s.end("infra", fmt.Sprintf("task %d exceeded the simulator's step budget in %s", t.ID, top), "")
				} else {
					s.end("runaway", fmt.Sprintf("task %d (%s) executed more than the allowed steps after %q, looping in %s", t.ID, t.Name, t.boundName, top), t.boundName+"@"+top)
				}
			case StReady:
				ready = append(ready, t)
			case StWaitLock:
				if t.waitLock.grantable(t) {
					ready = append(ready, t)
				}
			case StSleeping:
				if t.Aux && s.hostDone {
					break
				}
				sleepers++
				if earliest.IsZero() || t.wakeAt.Before(earliest) {
					earliest = t.wakeAt
				}
			}
			if t.state != StDone && t.state != StPanicked && !t.Aux {
				live++
				if t.Host {
					hostLive++
				}
			}
		}
		if s.outcome != "" {
			s.mu.Unlock()
			break loop
		}
		for _, dl := range sortedDeadlines(s.deadlines) {
			if s.fair(now).After(dl.at) {
				s.end("deadline", fmt.Sprintf("simulated deadline %q passed", dl.name), dl.name)
			}
		}
		if s.outcome != "" {
			s.mu.Unlock()
			break loop
		}
		if hostLive == 0 && !s.hostDone {
			s.hostDone = true
			s.drainAt = s.fair(now)
			s.Logf("host done; draining")
			n := s.cfg.DrainSteps
			for _, t := range s.tasks {
				if t.boundName == "sim-task-budget" {
					t.stepLimit = t.steps + n
					t.boundName = "drain"
				}
			}
		}
		if s.hostDone && s.fair(now).Sub(s.drainAt) > s.cfg.DrainTime {
			s.mu.Unlock()
			break loop // leftover tasks are reported by finish()
		}
		if now.Sub(s.start) > s.cfg.MaxSimTime {
			s.end("infra", "simulated-time bound of the simulator exceeded", "")
			s.mu.Unlock()
			break loop
		}
		if s.decisions > s.cfg.MaxDecisions {
			armed := ""
			for _, t := range s.tasks {
				if t.state != StDone && t.boundName != "sim-task-budget" && t.boundName != "drain" {
					armed = t.boundName
				}
			}
			if armed != "" {
				// tasks are still running under a property's step bound and have kept
				// the scheduler busy for its whole decision budget: they do not stop
				s.end("runaway", fmt.Sprintf("tasks still running %d scheduling decisions after %q", s.decisions, armed), armed+"@decisions")
			} else {
				s.end("infra", "decision bound of the simulator exceeded", "")
			}
			s.mu.Unlock()
			break loop
		}

		if len(ready) == 0 && len(settling) > 0 {
			// resume a settling task once nothing else can run (or its patience is over)
			if sleepers == 0 || !now.Before(settling[0].wakeAt) {
				ready = append(ready, settling[0])
			} else if settling[0].wakeAt.Before(earliest) {
				earliest = settling[0].wakeAt
			}
		}
		if len(ready) == 0 {
			if live == 0 {
				s.mu.Unlock()
				break loop
			}
			s.mu.Unlock()
			// Nothing runnable: let the fake clock run to the next timer.
			horizon := time.Hour
			if sleepers > 0 {
				for _, dl := range s.deadlines {
					if d := dl.Sub(s.fair(now)) + time.Nanosecond; d < horizon {
						horizon = d
					}
				}
				for _, st := range settling {
					if d := st.wakeAt.Sub(now) + time.Nanosecond; d < horizon && d > 0 {
						horizon = d
					}
				}
				if s.hostDone {
					if d := s.cfg.DrainTime - s.fair(now).Sub(s.drainAt) + time.Nanosecond; d < horizon {
						horizon = d
					}
				}
			}
			// With no announced sleeper nothing the simulator knows of can ever
			// happen again: wait one full horizon for an un-announced timer,
			// then it is a deadlock (or, after the host returned, the end of the drain).
			select {
			case <-s.kick:
			default:
			}
			tm := time.NewTimer(horizon)
			timedOut := false
			select {
			case <-s.kick:
				tm.Stop()
			case <-tm.C:
				timedOut = true
			}
			if timedOut && sleepers == 0 {
				idle++
				if idle >= 2 || horizon == time.Hour {
					if s.hostDone {
						break loop // drained: whatever is left is leftover
					}
					s.mu.Lock()
					s.end("deadlock", s.describeDeadlock(), s.deadlockSig())
					s.mu.Unlock()
					break loop
				}
			} else {
				idle = 0
			}
			continue
		}
		idle = 0

		// order: the task that ran last first, then by id. Bounded fairness: once the same
		// task has been continued fairK times in a row while others were ready, it goes
		// last, so that the default decision (0) lets somebody else run (a spin-wait on
		// another core's progress must terminate under the default schedule).
		if s.streak < fairK {
			sort.SliceStable(ready, func(i, j int) bool {
				if (ready[i] == s.last) != (ready[j] == s.last) {
					return ready[i] == s.last
				}
				return ready[i].ID < ready[j].ID
			})
		} else {
			// least recently run first (round robin)
			sort.SliceStable(ready, func(i, j int) bool {
				if ready[i].lastRun != ready[j].lastRun {
					return ready[i].lastRun < ready[j].lastRun
				}
				return ready[i].ID < ready[j].ID
			})
		}
		n := len(ready)
		clockOpt := s.cfg.ClockJumps && sleepers > 0 && earliest.After(now)
		if clockOpt {
			n++
		}
		s.decisions++
		i := 0
		if ss, ok := s.src.(SchedSource); ok && len(ready) > 1 && s.streak < fairK {
			// (strict priorities starve: after fairK consecutive continuations of one task while others
			// were ready the bounded-fair default order below takes over, as for every other source)
			ids := make([]int, len(ready))
			for k, t := range ready {
				ids[k] = t.ID
			}
			i = ss.ChooseSched(ids, s.decisions)
			if i < 0 || i >= len(ready) {
				i = 0
			}
			s.choices = append(s.choices, Choice{"sched", n, i})
			if i != 0 {
				s.Logf("choose sched %d/%d", i, n)
			} else {
				s.hashInts("sched", i, n)
			}
		} else if n > 1 {
			i = s.Choose(n, "sched")
		}
		if clockOpt && i == n-1 {
			s.Logf("clock jump %v", earliest.Sub(now))
			s.jumped += earliest.Sub(now)
			s.mu.Unlock()
			time.Sleep(earliest.Sub(now))
			continue
		}
		t := ready[i]
		if len(s.cfg.QuantumTable) > 0 {
			if q := s.Choose(len(s.cfg.QuantumTable)+1, "quantum"); q > 0 {
				s.quantumOn = true
				s.quantum = s.cfg.QuantumTable[q-1]
			} else {
				s.quantumOn = false
			}
		}
		if t.state == StWaitLock {
			t.waitLock.grant(t)
		}
		if t == s.last && len(ready) > 1 {
			s.streak++
		} else {
			s.streak = 0
		}
		if t != s.last {
			s.switches++
			fmt.Fprintf(s.sw, "%d@%s;", t.ID, t.site)
			s.Logf("switch -> %d (%s) at %s [%d ready]", t.ID, t.Name, t.site, len(ready))
		} else {
			s.hashInts(t.site, t.ID, 0)
		}
		s.last = t
		s.cur = t
		t.lastRun = s.decisions
		t.state = StRunning
		s.mu.Unlock()
		t.resume <- struct{}{}
	}
}

type dlEntry struct {
	name string
	at   time.Time
}

func sortedDeadlines(m map[string]time.Time) []dlEntry {
	out := make([]dlEntry, 0, len(m))
	for k, v := range m {
		out = append(out, dlEntry{k, v})
	}
	sort.Slice(out, func(i, j int) bool { return out[i].name < out[j].name })
	return out
}

func firstN(s []string, n int) []string {
	if len(s) > n {
		return s[:n]
	}
	return s
}

func panicCategory(v string) string {
	switch {
	case strings.Contains(v, "index out of range"), strings.Contains(v, "slice bounds out of range"):
		return "index"
	case strings.Contains(v, "nil pointer"), strings.Contains(v, "nil map"):
		return "nil"
	case strings.Contains(v, "interface conversion"):
		return "assertion"
	case strings.Contains(v, "divide by zero"):
		return "divzero"
	case strings.Contains(v, "unlock of unlocked"), strings.Contains(v, "RUnlock of unlocked"):
		return "unlock"
	default:
		return "explicit"
	}
}

// repoFrames extracts function names (no line numbers, no addresses) from a
// stack dump, dropping runtime, testing and simrt frames.
func repoFrames(stack string) []string {
	var out []string
	for _, ln := range strings.Split(stack, "\n") {
		if ln == "" || ln[0] == '\t' || strings.HasPrefix(ln, "goroutine ") {
			continue
		}
		fn := ln
		if i := strings.LastIndex(fn, "("); i > 0 {
			fn = fn[:i]
		}
		if strings.HasPrefix(fn, "runtime.") || strings.HasPrefix(fn, "runtime/") || strings.HasPrefix(fn, "testing.") || strings.HasPrefix(fn, "panic") ||
			strings.Contains(fn, "verif.local/simrt") || strings.HasPrefix(fn, "created by ") || strings.HasPrefix(fn, "internal/") || strings.HasPrefix(fn, "sync.") {
			continue
		}
		out = append(out, shortFunc(fn))
	}
	return out
}

func shortFunc(fn string) string {
	fn = strings.TrimPrefix(fn, "github.com/smarthome-go/homescript/v3/homescript/")
	fn = strings.TrimPrefix(fn, "github.com/smarthome-go/homescript/v3/")
	return fn
}

// callerFunc names the first caller outside simrt (cached by return PCs).
var callerCache sync.Map // [4]uintptr -> string

func callerFunc() string {
	var pcs [4]uintptr
	n := runtime.Callers(2, pcs[:])
	if v, ok := callerCache.Load(pcs); ok {
		return v.(string)
	}
	name := "?"
	frames := runtime.CallersFrames(pcs[:n])
	for {
		f, more := frames.Next()
		if !strings.Contains(f.Function, "verif.local/simrt") {
			name = shortFunc(f.Function)
			break
		}
		if !more {
			break
		}
	}
	callerCache.Store(pcs, name)
	return name
}

func (s *Sim) describeDeadlock() string {
	var b strings.Builder
	b.WriteString("no task can run and no timer is pending:")
	for _, t := range s.tasks {
		if t.state == StDone {
			continue
		}
		fmt.Fprintf(&b, " [task %d %s %s at %s", t.ID, t.Name, t.state, t.site)
		if t.state == StWaitLock {
			fmt.Fprintf(&b, " wants %c of %s; %s", t.waitMode, t.waitLock.name, t.waitLock.holders())
		}
		b.WriteString("]")
	}
	return b.String()
}

func (s *Sim) deadlockSig() string {
	var parts []string
	for _, t := range s.tasks {
		switch t.state {
		case StWaitLock:
			nm := t.waitLock.name
			if i := strings.IndexByte(nm, '@'); i >= 0 {
				nm = nm[i+1:]
			}
			parts = append(parts, fmt.Sprintf("lock:%s<%s", nm, t.waitLock.holderSites()))
		case StBlocked:
			parts = append(parts, "ext:"+t.site)
		}
	}
	sort.Strings(parts)
	return strings.Join(dedup(parts), ",")
}

func dedup(s []string) []string {
	var out []string
	for i, x := range s {
		if i == 0 || x != s[i-1] {
			out = append(out, x)
		}
	}
	return out
}

// finish aborts whatever is still parked and collects the result.
func (s *Sim) finish() *Result {
	res := &Result{
		Outcome: s.outcome, Detail: s.detail, Sig: s.sig,
		Choices: s.choices, Decisions: s.decisions, Switches: s.switches, Steps: s.steps,
		SimTime: time.Since(s.start), Probes: s.Probes, Faults: s.Faults, MapSites: s.mapSitesHit,
	}
	if res.Outcome == "" {
		res.Outcome = "ok"
	}
	var stacks map[int64][]string
	s.mu.Lock()
	for _, t := range s.tasks {
		ti := TaskInfo{ID: t.ID, Name: t.Name, State: t.state.String(), Site: t.site, Steps: t.steps}
		if t.state != StDone && t.state != StPanicked && !t.Aux {
			if t.state == StBlocked {
				if stacks == nil {
					stacks = allStacks()
				}
				ti.Stack = stacks[t.rgoid]
			}
			if t.state == StTrapped {
				ti.Stack = t.trapStack
			}
			res.Leftover = append(res.Leftover, ti)
		}
		res.Tasks = append(res.Tasks, ti)
	}
	for _, l := range s.locks {
		if h := l.holders(); h != "free" {
			res.LockHeld = append(res.LockHeld, l.name+": "+h)
		}
	}
	s.mu.Unlock()
	res.LogHash = hex.EncodeToString(s.h.Sum(nil))[:16]
	res.SwitchSeq = hex.EncodeToString(s.sw.Sum(nil))[:16]
	res.LogTail = s.log
	if len(res.LogTail) > s.cfg.KeepLog && s.cfg.KeepLog > 0 {
		res.LogTail = res.LogTail[len(res.LogTail)-s.cfg.KeepLog:]
	}
	res.FullLog = s.fullLog

	// Kill everything that is parked on a resume channel or asleep.
	s.aborting.Store(true)
	close(s.abortCh)
	s.mu.Lock()
	var parked []*Task
	for _, t := range s.tasks {
		switch t.state {
		case StReady, StWaitLock, StTrapped:
			parked = append(parked, t)
		}
	}
	s.mu.Unlock()
	for _, t := range parked {
		t.resume <- struct{}{}
	}
	synctest.Wait()
	return res
}

func allStacks() map[int64][]string {
	buf := make([]byte, 1<<20)
	n := runtime.Stack(buf, true)
	out := map[int64][]string{}
	for _, blk := range strings.Split(string(buf[:n]), "\n\n") {
		if !strings.HasPrefix(blk, "goroutine ") {
			continue
		}
		var id int64
		for _, c := range blk[10:] {
			if c < '0' || c > '9' {
				break
			}
			id = id*10 + int64(c-'0')
		}
		out[id] = repoFrames(blk)
	}
	return out
}

var _ = math.MaxInt64
