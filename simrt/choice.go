package simrt

// Every nondeterministic decision of a simulated run is one call of Choose on
// one Source. Value 0 is always the boring default (keep running the same
// task, sorted map order, no fault), so a minimised vector reads as
// "defaults, except these k decisions".

// Choice is one recorded decision.
type Choice struct {
	Tag string `json:"t"`
	N   int    `json:"n"`
	V   int    `json:"v"`
}

// Source yields the next decision in [0,n).
type Source interface {
	Choose(n int, tag string) int
}

// ---- PRNG (splitmix64 seeded xoshiro256**) ----

type Rng struct{ s [4]uint64 }

func splitmix(x *uint64) uint64 {
	*x += 0x9e3779b97f4a7c15
	z := *x
	z = (z ^ (z >> 30)) * 0xbf58476d1ce4e5b9
	z = (z ^ (z >> 27)) * 0x94d049bb133111eb
	return z ^ (z >> 31)
}

func NewRng(seed uint64) *Rng {
	r := &Rng{}
	x := seed
	for i := range r.s {
		r.s[i] = splitmix(&x)
	}
	return r
}

func rotl(x uint64, k uint) uint64 { return (x << k) | (x >> (64 - k)) }

func (r *Rng) Uint64() uint64 {
	res := rotl(r.s[1]*5, 7) * 9
	t := r.s[1] << 17
	r.s[2] ^= r.s[0]
	r.s[3] ^= r.s[1]
	r.s[1] ^= r.s[2]
	r.s[0] ^= r.s[3]
	r.s[2] ^= t
	r.s[3] = rotl(r.s[3], 45)
	return res
}

func (r *Rng) Intn(n int) int {
	if n <= 1 {
		return 0
	}
	return int(r.Uint64() % uint64(n))
}

func (r *Rng) Float() float64 { return float64(r.Uint64()>>11) / (1 << 53) }

// Mix derives a seed from several integers.
func Mix(vs ...uint64) uint64 {
	x := uint64(0x243f6a8885a308d3)
	for _, v := range vs {
		x ^= v
		_ = splitmix(&x)
		x = splitmix(&x)
	}
	return x
}

// ---- search source: seeded random walk with per-tag bias ----

// Strategy gives, per tag, the probability of a non-default decision.
// Missing tags use Default.
type Strategy struct {
	Name    string             `json:"name"`
	P       map[string]float64 `json:"p"`
	Default float64            `json:"default"`
}

func (st Strategy) prob(tag string) float64 {
	if p, ok := st.P[tag]; ok {
		return p
	}
	return st.Default
}

type SearchSource struct {
	R  *Rng
	St Strategy
}

func NewSearch(seed uint64, st Strategy) *SearchSource {
	return &SearchSource{R: NewRng(seed), St: st}
}

func (s *SearchSource) Choose(n int, tag string) int {
	if n <= 1 {
		return 0
	}
	p := s.St.prob(tag)
	if p >= 1 { // uniform over all values
		return s.R.Intn(n)
	}
	if s.R.Float() >= p {
		return 0
	}
	return 1 + s.R.Intn(n-1)
}

// ---- PCT: priority-based schedule search (Burckhardt et al., ASPLOS 2010) ----
//
// Every task gets a random priority when the scheduler first offers it; the ready task with the
// highest priority always runs; at d-1 decision indices drawn uniformly from [0, Horizon) the task that
// would run is demoted below everybody else. A defect that needs d ordering constraints is hit with
// probability >= 1/(n * Horizon^(d-1)) per run, whatever the rest of the schedule looks like. All other
// choices (quanta, map orders, select, workload) come from an ordinary random walk. What the scheduler
// records is the index it was given back, so a PCT run replays from its choice vector like any other.

// SchedSource is implemented by sources that want to see which tasks are ready.
type SchedSource interface {
	ChooseSched(readyIDs []int, decision int) int
}

type PCTSource struct {
	*SearchSource
	Depth   int
	Horizon int
	prio    map[int]float64
	change  map[int]int // decision index -> demotion rank
	init    bool
}

func NewPCT(seed uint64, depth, horizon int, other Strategy) *PCTSource {
	return &PCTSource{SearchSource: NewSearch(seed, other), Depth: depth, Horizon: horizon, prio: map[int]float64{}, change: map[int]int{}}
}

func (p *PCTSource) ChooseSched(ready []int, decision int) int {
	if !p.init {
		p.init = true
		for j := 1; j < p.Depth; j++ {
			p.change[p.R.Intn(p.Horizon)] = j
		}
	}
	best := 0
	for i, id := range ready {
		if _, ok := p.prio[id]; !ok {
			p.prio[id] = 1 + p.R.Float() // above every demoted task
		}
		if p.prio[id] > p.prio[ready[best]] {
			best = i
		}
	}
	if j, ok := p.change[decision]; ok {
		p.prio[ready[best]] = float64(j) / float64(p.Depth+1) // below all initial priorities, ordered among demoted ones
		best = 0
		for i, id := range ready {
			if p.prio[id] > p.prio[ready[best]] {
				best = i
			}
		}
	}
	return best
}

// ---- replay source: recorded vector; exhausted or out of range => default ----

type ReplaySource struct {
	Vals []int
	pos  int
}

func (r *ReplaySource) Choose(n int, tag string) int {
	if r.pos >= len(r.Vals) {
		r.pos++
		return 0
	}
	v := r.Vals[r.pos]
	r.pos++
	if v < 0 || v >= n {
		return 0
	}
	return v
}

// PrefixThen replays a vector and continues with another source afterwards.
type PrefixThen struct {
	Vals []int
	Then Source
	pos  int
}

func (r *PrefixThen) Choose(n int, tag string) int {
	if r.pos < len(r.Vals) {
		v := r.Vals[r.pos]
		r.pos++
		if v < 0 || v >= n {
			return 0
		}
		return v
	}
	r.pos++
	if r.Then == nil {
		return 0
	}
	return r.Then.Choose(n, tag)
}

// Sparse encodes a vector as (index,value) pairs of its non-zero entries.
type Sparse struct {
	Len int      `json:"len"`
	NZ  [][2]int `json:"nz"`
}

func ToSparse(v []int) Sparse {
	sp := Sparse{Len: len(v), NZ: [][2]int{}}
	for i, x := range v {
		if x != 0 {
			sp.NZ = append(sp.NZ, [2]int{i, x})
		}
	}
	return sp
}

func (sp Sparse) Dense() []int {
	n := sp.Len
	for _, p := range sp.NZ {
		if p[0] >= n {
			n = p[0] + 1
		}
	}
	v := make([]int, n)
	for _, p := range sp.NZ {
		v[p[0]] = p[1]
	}
	return v
}
