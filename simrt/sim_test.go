package simrt

import (
	"fmt"
	"testing"
	"time"
)

func strat() Strategy {
	return Strategy{Name: "walk", P: map[string]float64{"sched": 0.3, "quantum": 0.3}, Default: 0.1}
}

func TestLostUpdate(t *testing.T) {
	found := 0
	hashes := map[uint64]string{}
	for round := 0; round < 2; round++ {
		for seed := uint64(0); seed < 200; seed++ {
			counter := 0
			cfg := DefaultConfig()
			res := Run(t, cfg, NewSearch(seed, strat()), func(s *Sim) {
				done := make(chan struct{})
				for i := 0; i < 2; i++ {
					Go(func() {
						for k := 0; k < 3; k++ {
							v := counter
							Yield("rw")
							counter = v + 1
						}
						done <- struct{}{}
						Woke()
					})
				}
				for i := 0; i < 2; i++ {
					<-done
					Woke()
				}
			})
			if res.Outcome != "ok" {
				t.Fatalf("seed %d: %s %s", seed, res.Outcome, res.Detail)
			}
			if round == 0 {
				hashes[seed] = res.LogHash + fmt.Sprint(counter)
				if counter != 6 {
					found++
				}
			} else if hashes[seed] != res.LogHash+fmt.Sprint(counter) {
				t.Fatalf("seed %d not deterministic", seed)
			}
		}
	}
	if found == 0 {
		t.Fatal("no lost update found")
	}
	t.Logf("lost updates in %d/200 seeds", found)
}

func TestLeakAndDeadlock(t *testing.T) {
	for i := 0; i < 3; i++ {
		res := Run(t, DefaultConfig(), NewSearch(1, strat()), func(s *Sim) {
			ch := make(chan int)
			Go(func() { ch <- 1; Woke() }) // never received
		})
		if res.Outcome != "ok" || len(res.Leftover) != 1 {
			t.Fatalf("want one leftover, got %s %+v", res.Outcome, res.Leftover)
		}
		t.Logf("leftover: %+v", res.Leftover)
	}
	var mu RWMutex
	res := Run(t, DefaultConfig(), NewSearch(1, strat()), func(s *Sim) {
		mu.RLock()
		mu.Lock()
	})
	if res.Outcome != "deadlock" {
		t.Fatalf("want deadlock got %s", res.Outcome)
	}
	t.Log(res.Detail, "|", res.Sig)
}

func TestClock(t *testing.T) {
	var order []string
	res := Run(t, DefaultConfig(), NewSearch(3, strat()), func(s *Sim) {
		Go(func() { s.Sleep(10 * time.Millisecond); order = append(order, fmt.Sprint("a", s.Now())) })
		Go(func() { s.Sleep(5 * time.Millisecond); order = append(order, fmt.Sprint("b", s.Now())) })
		s.Sleep(20 * time.Millisecond)
		order = append(order, fmt.Sprint("h", s.Now()))
	})
	t.Log(res.Outcome, order, res.SimTime)
	if len(order) != 3 || order[0][0] != 'b' || order[2][0] != 'h' {
		t.Fatal("bad order")
	}
}

func TestRunaway(t *testing.T) {
	res := Run(t, DefaultConfig(), NewSearch(3, strat()), func(s *Sim) {
		s.ArmStepBound("after-cancel", 1000)
		for {
			Step()
		}
	})
	t.Log(res.Outcome, res.Detail, res.Sig)
	if res.Outcome != "runaway" {
		t.Fatal()
	}
	res = Run(t, DefaultConfig(), NewSearch(3, strat()), func(s *Sim) {
		var m map[string]int
		m["x"] = 1
	})
	t.Log(res.Outcome, res.Detail, res.Sig)
	if res.Outcome != "crash" {
		t.Fatal()
	}
}
