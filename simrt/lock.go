package simrt

import (
	"fmt"
	"sort"
	"strings"
	"sync"
)

// Modelled locks. While a simulation is active the scheduler owns lock state,
// so lock availability is part of task enabledness and a leaked lock is a
// deadlock the scheduler can see and attribute. Outside a simulation (and in
// free mode) the real primitive is used.
//
// RWMutex semantics modelled after sync.RWMutex: a blocked Lock call blocks
// new RLock calls (writer preference); when a writer unlocks, every reader
// that was blocked at that moment is admitted before the next writer.

type holder struct {
	task int
	name string
	site string
}

type lockModel struct {
	id       int
	name     string
	writer   *holder
	readers  []holder
	pendingW []*Task
	blockedR []*Task
}

func (m *lockModel) grantable(t *Task) bool {
	if t.granted {
		return true
	}
	if t.waitMode == 'W' {
		return m.writer == nil && len(m.readers) == 0
	}
	return m.writer == nil && len(m.pendingW) == 0
}

func removeTask(l []*Task, t *Task) []*Task {
	for i, x := range l {
		if x == t {
			return append(l[:i:i], l[i+1:]...)
		}
	}
	return l
}

func (m *lockModel) grant(t *Task) {
	if t.granted {
		t.granted = false
		return
	}
	if t.waitMode == 'W' {
		m.pendingW = removeTask(m.pendingW, t)
		m.writer = &holder{t.ID, t.Name, t.site}
	} else {
		m.blockedR = removeTask(m.blockedR, t)
		m.readers = append(m.readers, holder{t.ID, t.Name, t.site})
	}
}

func (m *lockModel) holders() string {
	var p []string
	if m.writer != nil {
		p = append(p, fmt.Sprintf("held for W since %s by task %d (%s)", m.writer.site, m.writer.task, m.writer.name))
	}
	for _, r := range m.readers {
		p = append(p, fmt.Sprintf("held for R since %s by task %d (%s)", r.site, r.task, r.name))
	}
	if len(p) == 0 {
		return "free"
	}
	return strings.Join(p, "; ")
}

func (m *lockModel) holderSites() string {
	var p []string
	if m.writer != nil {
		p = append(p, "W:"+m.writer.site)
	}
	for _, r := range m.readers {
		p = append(p, "R:"+r.site)
	}
	sort.Strings(p)
	return strings.Join(dedup(p), "+")
}

type lockRef struct {
	gen  uint64
	self any
	m    *lockModel
}

func (s *Sim) model(ref *lockRef, self any, site string) *lockModel {
	if ref.gen != s.lockGen || ref.self != self || ref.m == nil {
		s.mu.Lock()
		ref.gen = s.lockGen
		ref.self = self
		ref.m = &lockModel{id: len(s.locks), name: fmt.Sprintf("L%d@%s", len(s.locks), site)}
		s.locks = append(s.locks, ref.m)
		s.mu.Unlock()
	}
	return ref.m
}

func simFor() (*Sim, *Task) {
	s := active.Load()
	if s == nil || s.free {
		return nil, nil
	}
	if s.aborting.Load() {
		return s, nil
	}
	t := s.me()
	if t == nil {
		// A goroutine the simulator does not manage (harness setup code):
		// lock ops are modelled without blocking support.
		return s, nil
	}
	return s, t
}

func (s *Sim) acquire(m *lockModel, t *Task, mode byte, site string) {
	s.park(t, StReady, "lock:"+site) // scheduling point before the attempt
	s.mu.Lock()
	t.site = site
	if mode == 'W' {
		if m.writer == nil && len(m.readers) == 0 {
			m.writer = &holder{t.ID, t.Name, site}
			s.mu.Unlock()
			return
		}
		m.pendingW = append(m.pendingW, t)
	} else {
		if m.writer == nil && len(m.pendingW) == 0 {
			m.readers = append(m.readers, holder{t.ID, t.Name, site})
			s.mu.Unlock()
			return
		}
		m.blockedR = append(m.blockedR, t)
	}
	t.waitLock = m
	t.waitMode = mode
	s.mu.Unlock()
	s.Probe("lock-blocked")
	s.park(t, StWaitLock, site) // resumed by the scheduler once granted
	t.waitLock = nil
}

func (s *Sim) releaseW(m *lockModel) {
	s.mu.Lock()
	if m.writer == nil {
		s.mu.Unlock()
		panic("sync: Unlock of unlocked RWMutex")
	}
	m.writer = nil
	// admit every reader blocked at this moment
	for _, r := range m.blockedR {
		m.readers = append(m.readers, holder{r.ID, r.Name, r.site})
		r.granted = true
	}
	m.blockedR = nil
	s.mu.Unlock()
}

func (s *Sim) releaseR(m *lockModel, t *Task) {
	s.mu.Lock()
	if len(m.readers) == 0 {
		s.mu.Unlock()
		panic("sync: RUnlock of unlocked RWMutex")
	}
	idx := len(m.readers) - 1
	if t != nil {
		for i := len(m.readers) - 1; i >= 0; i-- {
			if m.readers[i].task == t.ID {
				idx = i
				break
			}
		}
	}
	m.readers = append(m.readers[:idx:idx], m.readers[idx+1:]...)
	s.mu.Unlock()
}

// RWMutex replaces sync.RWMutex in instrumented packages.
type RWMutex struct {
	real sync.RWMutex
	ref  lockRef
}

func (l *RWMutex) Lock() {
	s, t := simFor()
	if s == nil {
		l.real.Lock()
		return
	}
	if t == nil {
		return
	}
	site := callerFunc()
	s.acquire(s.model(&l.ref, l, site), t, 'W', site)
}

func (l *RWMutex) Unlock() {
	s, t := simFor()
	if s == nil {
		l.real.Unlock()
		return
	}
	if t == nil {
		return
	}
	s.releaseW(s.model(&l.ref, l, "?"))
}

func (l *RWMutex) RLock() {
	s, t := simFor()
	if s == nil {
		l.real.RLock()
		return
	}
	if t == nil {
		return
	}
	site := callerFunc()
	s.acquire(s.model(&l.ref, l, site), t, 'R', site)
}

func (l *RWMutex) RUnlock() {
	s, t := simFor()
	if s == nil {
		l.real.RUnlock()
		return
	}
	if t == nil {
		return
	}
	s.releaseR(s.model(&l.ref, l, "?"), t)
}

func (l *RWMutex) TryLock() bool  { panic("simsync: TryLock not modelled") }
func (l *RWMutex) TryRLock() bool { panic("simsync: TryRLock not modelled") }
func (l *RWMutex) RLocker() sync.Locker {
	return rlocker{l}
}

type rlocker struct{ l *RWMutex }

func (r rlocker) Lock()   { r.l.RLock() }
func (r rlocker) Unlock() { r.l.RUnlock() }

// Mutex replaces sync.Mutex in instrumented packages.
type Mutex struct {
	real sync.Mutex
	ref  lockRef
}

func (l *Mutex) Lock() {
	s, t := simFor()
	if s == nil {
		l.real.Lock()
		return
	}
	if t == nil {
		return
	}
	site := callerFunc()
	s.acquire(s.model(&l.ref, l, site), t, 'W', site)
}

func (l *Mutex) Unlock() {
	s, t := simFor()
	if s == nil {
		l.real.Unlock()
		return
	}
	if t == nil {
		return
	}
	s.releaseW(s.model(&l.ref, l, "?"))
}

func (l *Mutex) TryLock() bool { panic("simsync: TryLock not modelled") }
