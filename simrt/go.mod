module verif.local/simrt

go 1.26.8
