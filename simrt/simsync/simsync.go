// Package simsync stands in for package sync in instrumented packages: the two
// lock types are modelled by the simulator, everything else is the real thing
// (synctest already treats WaitGroup/Cond blocking as durable).
package simsync

import (
	"sync"

	"verif.local/simrt"
)

type (
	Mutex     = simrt.Mutex
	RWMutex   = simrt.RWMutex
	WaitGroup = sync.WaitGroup
	Once      = sync.Once
	Cond      = sync.Cond
	Map       = sync.Map
	Pool      = sync.Pool
	Locker    = sync.Locker
)

func NewCond(l Locker) *Cond { return sync.NewCond(l) }

func OnceFunc(f func()) func() { return sync.OnceFunc(f) }
