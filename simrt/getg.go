package simrt

// getg returns the address of the running goroutine's descriptor: a cheap
// identity for live goroutines (parsing runtime.Stack costs ~100 µs on deep
// stacks). Descriptors are recycled after a goroutine exits, so entries are
// removed from the identity table when a task ends.
func getg() uintptr
