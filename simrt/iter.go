package simrt

import (
	"fmt"
	"reflect"
	"sort"
)

// Item is one (key, map) pair of a rewritten map range loop.
type Item[K comparable, V any] struct {
	K K
	m map[K]V
}

// Get reads the current value; ok is false when the entry was deleted during
// the iteration (Go then does not produce it).
func (it Item[K, V]) Get() (V, bool) {
	v, ok := it.m[it.K]
	return v, ok
}

// Iter replaces `range m` over a map: keys in canonical order, permuted by the
// simulator for this execution of this site. Any permutation is legal under
// the Go specification.
func Iter[M ~map[K]V, K comparable, V any](m M, site string) []Item[K, V] {
	n := len(m)
	if n == 0 {
		return nil
	}
	keys := make([]K, 0, n)
	for k := range m {
		keys = append(keys, k)
	}
	sortKeys(keys)
	if n > 1 {
		if s := active.Load(); s != nil {
			s.permute(len(keys), site, func(i, j int) { keys[i], keys[j] = keys[j], keys[i] })
		}
	}
	out := make([]Item[K, V], n)
	for i, k := range keys {
		out[i] = Item[K, V]{k, m}
	}
	return out
}

func sortKeys[K comparable](keys []K) {
	if len(keys) < 2 {
		return
	}
	switch ks := any(keys).(type) {
	case []string:
		sort.Strings(ks)
		return
	case []int:
		sort.Ints(ks)
		return
	case []uint:
		sort.Slice(ks, func(i, j int) bool { return ks[i] < ks[j] })
		return
	}
	rv := reflect.ValueOf(keys[0])
	switch rv.Kind() {
	case reflect.String:
		sort.Slice(keys, func(i, j int) bool { return reflect.ValueOf(keys[i]).String() < reflect.ValueOf(keys[j]).String() })
	case reflect.Int, reflect.Int8, reflect.Int16, reflect.Int32, reflect.Int64:
		sort.Slice(keys, func(i, j int) bool { return reflect.ValueOf(keys[i]).Int() < reflect.ValueOf(keys[j]).Int() })
	case reflect.Uint, reflect.Uint8, reflect.Uint16, reflect.Uint32, reflect.Uint64, reflect.Uintptr:
		sort.Slice(keys, func(i, j int) bool { return reflect.ValueOf(keys[i]).Uint() < reflect.ValueOf(keys[j]).Uint() })
	default:
		strs := make(map[any]string, len(keys))
		for _, k := range keys {
			strs[k] = fmt.Sprintf("%#v", k)
		}
		sort.Slice(keys, func(i, j int) bool { return strs[keys[i]] < strs[keys[j]] })
	}
}

// permute applies the order the simulator picks for this execution of this
// map-range site. One choice per execution: 0 keeps the sorted order,
// 1 reverses, 2..n rotate so that every element comes first once, larger
// values seed a full shuffle.
func (s *Sim) permute(n int, site string, swap func(i, j int)) {
	if s.free {
		s.freePermute(n, site, swap)
		return
	}
	if !s.cfg.MapPerm || s.aborting.Load() {
		return
	}
	if s.cfg.MapSites != nil && !s.cfg.MapSites[site] {
		return
	}
	const shuffles = 12
	v := s.Choose(1+n+shuffles, "perm")
	if v == 0 {
		return
	}
	s.mapSitesHit[site]++
	applyPerm(n, v, swap)
}

func applyPerm(n, v int, swap func(i, j int)) {
	switch {
	case v <= 0: // sorted order
	case v == 1: // reverse
		for i, j := 0, n-1; i < j; i, j = i+1, j-1 {
			swap(i, j)
		}
	case v <= n: // rotate left by v-1: three reversals
		k := v - 1
		rev := func(a, b int) {
			for a < b {
				swap(a, b)
				a++
				b--
			}
		}
		rev(0, k-1)
		rev(k, n-1)
		rev(0, n-1)
	default:
		r := NewRng(uint64(v)*0x9e3779b97f4a7c15 + uint64(n))
		for i := n - 1; i > 0; i-- {
			swap(i, r.Intn(i+1))
		}
	}
}

// MapSitesHit reports, per map-range site, how often a non-sorted order was used.
func (s *Sim) MapSitesHit() map[string]int { return s.mapSitesHit }
