package simrt

import (
	"hash/fnv"
	"math/rand/v2"
	"runtime"
	"testing"
)

// Free mode (data-race clause only): no cooperative scheduler, real sync, real
// goroutines running in parallel inside a synctest bubble; Step injects
// Gosched/short spins from the runtime's per-thread generator (no shared
// state, hence no happens-before edges that could hide a race); map orders
// are a pure function of (seed, site, size).

func freeStep() {
	r := rand.Uint32()
	switch {
	case r&63 == 0:
		runtime.Gosched()
	case r&1023 == 1:
		for i := 0; i < int(r>>22); i++ {
			_ = i
		}
	}
}

func (s *Sim) freePermute(n int, site string, swap func(i, j int)) {
	h := fnv.New64a()
	h.Write([]byte(site))
	r := NewRng(Mix(s.freeSeed, h.Sum64(), uint64(n)))
	applyPerm(n, r.Intn(1+n+12), swap)
}

// RunFree runs host without the cooperative scheduler and without a synctest bubble: real goroutines,
// real locks, real time. (A bubble's fake clock only advances when every goroutine is durably blocked,
// so a core that spins would starve every sleeper, including the product's polling wait.)
func RunFree(t *testing.T, seed uint64, host func()) (panicMsg string) {
	s := &Sim{free: true, freeSeed: seed, mapSitesHit: map[string]int{}}
	defer func() {
		active.Store(nil)
		if r := recover(); r != nil {
			panicMsg = "host: " + toString(r)
		}
	}()
	active.Store(s)
	host()
	return ""
}

func toString(r any) string {
	if e, ok := r.(error); ok {
		return e.Error()
	}
	if s, ok := r.(string); ok {
		return s
	}
	return "panic"
}
