#!/bin/bash
# dev helper: instrument a scratch copy of /repo and build the harness test binary there
set -e
export GOFLAGS=-mod=mod GOPROXY=off GOSUMDB=off GOTOOLCHAIN=local
D=${D:-/tmp/sbdev}
SRC=${SRC:-/repo}
# the scratch copy is re-made whenever /repo (commit or working tree) differs from what it was made from
STAMP="$(git -C /repo rev-parse HEAD) $(git -C /repo status --porcelain | md5sum) $(git -C /repo diff | md5sum)"
if [ "$1" = "fresh" ] || [ ! -d $D/repo ] || [ "$(cat $D/stamp 2>/dev/null)" != "$STAMP" ]; then
  rm -rf $D; mkdir -p $D
  echo "$STAMP" > $D/stamp
  rsync -a --exclude .git $SRC/ $D/repo/
  /verif/bin/simbuild -dir $D/repo -report $D/sites.json
fi
mkdir -p $D/h
rsync -a --delete --exclude go.mod --exclude go.sum --exclude '*.test' /verif/harness/ $D/h/
cat > $D/h/go.mod <<EOM
module verif.local/harness

go 1.26.8

require (
	github.com/smarthome-go/homescript/v3 v3.0.0
	verif.local/simrt v0.0.0
)

replace github.com/smarthome-go/homescript/v3 => $D/repo

replace verif.local/simrt => /verif/simrt
EOM
cp /repo/go.sum $D/h/go.sum
cd $D/h && go1.26.8 vet . && go1.26.8 test -c -o $D/w.test .
