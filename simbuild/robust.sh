#!/bin/bash
# Instrumenter robustness self-test: a file with every Go construct the rewrite rules touch
# (go statements with receivers/nil/variadic args, select with send/receive/assign, range over
# channels/named maps/call results, labelled loops, embedded sync types, sleeps in switch bodies)
# is added to a scratch copy of the runtime package; instrumentation and the build must succeed.
set -e
export GOFLAGS=-mod=mod GOPROXY=off GOSUMDB=off GOTOOLCHAIN=local
D=$(mktemp -d /tmp/simbuild-robust-XXXX)
trap "rm -rf $D" EXIT
rsync -a --exclude .git /repo/ $D/repo/
cp /verif/simbuild/testdata/zz_robust.go.txt $D/repo/homescript/runtime/zz_robust.go
/verif/bin/simbuild -dir $D/repo
mkdir -p $D/h
cat > $D/h/go.mod <<EOM
module verif.local/harness

go 1.26.8

require (
	github.com/smarthome-go/homescript/v3 v3.0.0
	verif.local/simrt v0.0.0
)

replace github.com/smarthome-go/homescript/v3 => $D/repo

replace verif.local/simrt => /verif/simrt
EOM
cp /repo/go.sum $D/h/
printf 'package harness\nimport _ "github.com/smarthome-go/homescript/v3/homescript/runtime"\n' > $D/h/x.go
(cd $D/h && go1.26.8 build ./...)
echo "simbuild robustness: ok"
