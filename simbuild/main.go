// simbuild instruments a scratch copy of the homescript working tree so that
// the simulator (verif.local/simrt) owns goroutine scheduling, lock blocking,
// wake-ups and map iteration order. It never touches /repo.
//
//	simbuild -dir <scratch copy of /repo> [-report sites.json]
//
// Rules (see DESIGN.md §1.1):
//
//	T1 every `range` over a map iterates simrt.Iter(m, site)            (all packages)
//	T2 import "sync" -> verif.local/simrt/simsync                       (concurrent packages)
//	T3 go f(x) -> simrt.Go(func(){ f(x) })                              (concurrent packages)
//	T4 simrt.Step() at function entries and loop heads                  (VM + interpreter packages)
//	T5 simrt.Woke() after sleeps / channel operations, Sleeping before  (concurrent packages)
//	T8 simrt.AtomicPoint() before every statement that calls into sync/atomic (a preemption point)
//	T7 context.AfterFunc / time.AfterFunc -> simrt.AfterFunc / simrt.TimeAfterFunc (f runs as a task)
//	T6 a select with >= 2 channel cases first tries them one at a time in an order chosen by
//	   simrt.SelectFirst (Go's random pick among ready cases becomes a simulator choice)
package main

import (
	"bytes"
	"encoding/json"
	"flag"
	"fmt"
	"go/ast"
	"go/format"
	"go/parser"
	"go/printer"
	"go/token"
	"go/types"
	"os"
	"path/filepath"
	"reflect"
	"sort"
	"strconv"
	"strings"

	"golang.org/x/tools/go/ast/astutil"
	"golang.org/x/tools/go/packages"
)

const (
	modPath   = "github.com/smarthome-go/homescript/v3"
	simrtPath = "verif.local/simrt"
	syncPath  = "verif.local/simrt/simsync"
	simName   = "__simrt"
)

// package path suffix (below modPath + "/homescript") -> rule set.
// T2/T3/T5 apply to every product package (a maintainer may add goroutines or locks anywhere);
// T4 (step counting) only to the VM and interpreter packages, where the instruction loops are.
type allPkgs struct{}

func (allPkgs) has(string) bool { return true }

var stepPkgs = map[string]bool{"/runtime": true, "/runtime/value": true, "/interpreter": true, "/interpreter/value": true}

type report struct {
	MapSites   []string       `json:"map_sites"`
	GoSites    []string       `json:"go_sites"`
	WakeSites  int            `json:"wake_sites"`
	SelectSites int           `json:"select_sites"`
	AfterFuncSites int        `json:"afterfunc_sites"`
	AtomicSites int           `json:"atomic_sites"`
	StepSites  int            `json:"step_sites"`
	SyncFiles  []string       `json:"sync_files"`
	Warnings   []string       `json:"warnings"`
	PerPackage map[string]int `json:"rewrites_per_package"`
}

func main() {
	dir := flag.String("dir", "", "scratch copy of the repository (modified in place)")
	reportPath := flag.String("report", "", "write a JSON report of the rewritten sites")
	flag.Parse()
	if *dir == "" {
		fmt.Fprintln(os.Stderr, "simbuild: -dir required")
		os.Exit(2)
	}
	abs, _ := filepath.Abs(*dir)
	if strings.HasPrefix(abs, "/repo") || strings.HasPrefix(abs, "/verif") {
		fmt.Fprintln(os.Stderr, "simbuild: refusing to instrument inside /repo or /verif")
		os.Exit(2)
	}
	cfg := &packages.Config{
		Mode: packages.NeedName | packages.NeedFiles | packages.NeedCompiledGoFiles | packages.NeedImports |
			packages.NeedDeps | packages.NeedTypes | packages.NeedSyntax | packages.NeedTypesInfo,
		Dir:   abs,
		Tests: false,
		Env:   append(os.Environ(), "GOFLAGS=-mod=mod", "GOPROXY=off", "GOSUMDB=off", "GOTOOLCHAIN=local"),
	}
	pkgs, err := packages.Load(cfg, "./homescript/...")
	if err != nil {
		fmt.Fprintln(os.Stderr, "simbuild: load:", err)
		os.Exit(2)
	}
	bad := false
	for _, p := range pkgs {
		for _, e := range p.Errors {
			fmt.Fprintln(os.Stderr, "simbuild:", e)
			bad = true
		}
	}
	if bad {
		os.Exit(2)
	}
	rep := &report{PerPackage: map[string]int{}}
	sort.Slice(pkgs, func(i, j int) bool { return pkgs[i].PkgPath < pkgs[j].PkgPath })
	for _, p := range pkgs {
		if !strings.HasPrefix(p.PkgPath, modPath+"/homescript") {
			continue
		}
		suffix := strings.TrimPrefix(p.PkgPath, modPath+"/homescript")
		for i, f := range p.Syntax {
			name := p.CompiledGoFiles[i]
			if strings.HasSuffix(name, "_test.go") {
				continue
			}
			in := &instr{pkg: p, file: f, fset: p.Fset, rep: rep, suffix: suffix,
				relFile: strings.TrimPrefix(strings.TrimPrefix(name, abs), "/")}
			if in.run() {
				var buf bytes.Buffer
				if err := format.Node(&buf, p.Fset, f); err != nil {
					fmt.Fprintln(os.Stderr, "simbuild: print", name, err)
					os.Exit(2)
				}
				if err := os.WriteFile(name, buf.Bytes(), 0o644); err != nil {
					fmt.Fprintln(os.Stderr, "simbuild:", err)
					os.Exit(2)
				}
				rep.PerPackage[p.PkgPath] += in.count
			}
		}
	}
	sort.Strings(rep.MapSites)
	if *reportPath != "" {
		b, _ := json.MarshalIndent(rep, "", " ")
		os.WriteFile(*reportPath, b, 0o644)
	}
	fmt.Printf("simbuild: %d map-range sites, %d go statements, %d wake points, %d step points, %d sync imports, %d multi-case selects, %d atomic points, %d warnings\n",
		len(rep.MapSites), len(rep.GoSites), rep.WakeSites, rep.StepSites, len(rep.SyncFiles), rep.SelectSites, rep.AtomicSites, len(rep.Warnings))
	for _, w := range rep.Warnings {
		fmt.Println("simbuild: warning:", w)
	}
}

type instr struct {
	pkg            *packages.Package
	file           *ast.File
	fset           *token.FileSet
	rep            *report
	suffix         string
	relFile        string
	count          int
	needSim        bool
	sleepRewritten bool
	selectSeq      int
}

func sel(name string) ast.Expr {
	return &ast.SelectorExpr{X: ast.NewIdent(simName), Sel: ast.NewIdent(name)}
}

func callStmt(name string, args ...ast.Expr) ast.Stmt {
	return &ast.ExprStmt{X: &ast.CallExpr{Fun: sel(name), Args: args}}
}

func (in *instr) run() bool {
	// T2
	if true {
		for _, imp := range in.file.Imports {
			if imp.Path.Value == `"sync"` {
				imp.Path.Value = strconv.Quote(syncPath)
				if imp.Name == nil {
					imp.Name = ast.NewIdent("sync")
				}
				in.rep.SyncFiles = append(in.rep.SyncFiles, in.relFile)
				in.count++
			}
		}
	}
	// T7
	touched := map[string]bool{}
	ast.Inspect(in.file, func(n ast.Node) bool {
		se, ok := n.(*ast.SelectorExpr)
		if !ok || se.Sel.Name != "AfterFunc" {
			return true
		}
		id, ok := se.X.(*ast.Ident)
		if !ok {
			return true
		}
		pn, ok := in.pkg.TypesInfo.Uses[id].(*types.PkgName)
		if !ok {
			return true
		}
		switch pn.Imported().Path() {
		case "context":
			se.X, se.Sel = ast.NewIdent(simName), ast.NewIdent("AfterFunc")
		case "time":
			se.X, se.Sel = ast.NewIdent(simName), ast.NewIdent("TimeAfterFunc")
		default:
			return true
		}
		touched[pn.Imported().Path()] = true
		in.needSim = true
		in.count++
		in.rep.AfterFuncSites++
		return true
	})
	defer func() {
		for path := range touched {
			if !astutil.UsesImport(in.file, path) {
				astutil.DeleteImport(in.fset, in.file, path)
			}
		}
	}()
	for _, d := range in.file.Decls {
		fd, ok := d.(*ast.FuncDecl)
		if !ok || fd.Body == nil {
			continue
		}
		fname := fd.Name.Name
		if fd.Recv != nil && len(fd.Recv.List) > 0 {
			fname = recvName(fd.Recv.List[0].Type) + "." + fname
		}
		fi := &funcInstr{in: in, fname: fname}
		fi.block(fd.Body)
		if stepPkgs[in.suffix] {
			fd.Body.List = append([]ast.Stmt{callStmt("Step")}, fd.Body.List...)
			in.rep.StepSites++
			in.needSim = true
			in.count++
		}
	}
	// package-level function literals (var x = func(){...})
	for _, d := range in.file.Decls {
		gd, ok := d.(*ast.GenDecl)
		if !ok {
			continue
		}
		fi := &funcInstr{in: in, fname: "init"}
		ast.Inspect(gd, func(n ast.Node) bool {
			if fl, ok := n.(*ast.FuncLit); ok {
				fi.funcLit(fl)
				return false
			}
			return true
		})
	}
	if in.needSim {
		astutil.AddNamedImport(in.fset, in.file, simName, simrtPath)
	}
	// time.Sleep was rewritten: the import may have lost its last use
	if in.sleepRewritten && !astutil.UsesImport(in.file, "time") {
		astutil.DeleteImport(in.fset, in.file, "time")
	}
	return in.count > 0
}

func recvName(e ast.Expr) string {
	switch t := e.(type) {
	case *ast.StarExpr:
		return recvName(t.X)
	case *ast.Ident:
		return t.Name
	case *ast.IndexExpr:
		return recvName(t.X)
	}
	return "?"
}

type funcInstr struct {
	in          *instr
	fname       string
	nMap        int
	labeledNext bool // the statement about to be visited carries a label
}

func (fi *funcInstr) funcLit(fl *ast.FuncLit) {
	fi.block(fl.Body)
	if stepPkgs[fi.in.suffix] {
		fl.Body.List = append([]ast.Stmt{callStmt("Step")}, fl.Body.List...)
		fi.in.rep.StepSites++
		fi.in.needSim = true
		fi.in.count++
	}
}

// exprs visits function literals nested in expressions of a statement.
func (fi *funcInstr) exprs(n ast.Node) {
	if n == nil {
		return
	}
	ast.Inspect(n, func(x ast.Node) bool {
		switch t := x.(type) {
		case *ast.FuncLit:
			fi.funcLit(t)
			return false
		case *ast.BlockStmt:
			return false // blocks are handled by the statement walk
		}
		return true
	})
}

func (fi *funcInstr) block(b *ast.BlockStmt) {
	if b == nil {
		return
	}
	b.List = fi.stmts(b.List)
}

func hasRecv(n ast.Node) bool {
	found := false
	ast.Inspect(n, func(x ast.Node) bool {
		switch t := x.(type) {
		case *ast.FuncLit, *ast.BlockStmt:
			return false
		case *ast.UnaryExpr:
			if t.Op == token.ARROW {
				found = true
			}
		}
		return true
	})
	return found
}

func (fi *funcInstr) isSleep(s ast.Stmt) (ast.Expr, bool) {
	es, ok := s.(*ast.ExprStmt)
	if !ok {
		return nil, false
	}
	c, ok := es.X.(*ast.CallExpr)
	if !ok || len(c.Args) != 1 {
		return nil, false
	}
	se, ok := c.Fun.(*ast.SelectorExpr)
	if !ok || se.Sel.Name != "Sleep" {
		return nil, false
	}
	id, ok := se.X.(*ast.Ident)
	if !ok {
		return nil, false
	}
	if pn, ok := fi.in.pkg.TypesInfo.Uses[id].(*types.PkgName); ok && pn.Imported().Path() == "time" {
		return c.Args[0], true
	}
	return nil, false
}

// isSyncWait: a statement `x.Wait()` where x is a sync.WaitGroup or *sync.Cond (blocks durably
// under synctest; the woken goroutine has to park again before it touches anything).
func (fi *funcInstr) isSyncWait(s ast.Stmt) bool {
	es, ok := s.(*ast.ExprStmt)
	if !ok {
		return false
	}
	c, ok := es.X.(*ast.CallExpr)
	if !ok || len(c.Args) != 0 {
		return false
	}
	se, ok := c.Fun.(*ast.SelectorExpr)
	if !ok || se.Sel.Name != "Wait" {
		return false
	}
	t := fi.in.pkg.TypesInfo.TypeOf(se.X)
	if t == nil {
		return false
	}
	if p, ok := t.(*types.Pointer); ok {
		t = p.Elem()
	}
	n, ok := t.(*types.Named)
	if !ok || n.Obj().Pkg() == nil {
		return false
	}
	return n.Obj().Pkg().Path() == "sync" && (n.Obj().Name() == "WaitGroup" || n.Obj().Name() == "Cond")
}

func (fi *funcInstr) stmts(list []ast.Stmt) []ast.Stmt {
	in := fi.in
	var out []ast.Stmt
	for _, s := range list {
		wake := true
		labeled := fi.labeledNext
		fi.labeledNext = false
		if fi.usesAtomic(s) && !labeled {
			out = append(out, callStmt("AtomicPoint"))
			in.rep.AtomicSites++
			in.needSim = true
			in.count++
		}
		switch t := s.(type) {
		case *ast.BlockStmt:
			fi.block(t)
		case *ast.IfStmt:
			fi.ifStmt(t)
		case *ast.ForStmt:
			fi.exprs(t.Init)
			fi.exprs(t.Cond)
			fi.exprs(t.Post)
			fi.block(t.Body)
			fi.loopHead(t.Body)
			if t.Cond != nil && fi.usesAtomic(&ast.ExprStmt{X: t.Cond}) || t.Post != nil && fi.usesAtomic(t.Post) {
				// a loop that spins on an atomic value: every iteration is a preemption point
				t.Body.List = append([]ast.Stmt{callStmt("AtomicPoint")}, t.Body.List...)
				in.rep.AtomicSites++
				in.needSim = true
				in.count++
			}
		case *ast.RangeStmt:
			fi.exprs(t.X)
			fi.block(t.Body)
			if tv := in.pkg.TypesInfo.TypeOf(t.X); tv != nil {
				switch tv.Underlying().(type) {
				case *types.Map:
					fi.mapRange(t)
				case *types.Chan:
					if wake {
						t.Body.List = append([]ast.Stmt{callStmt("Woke")}, t.Body.List...)
						out = append(out, s, callStmt("Woke"))
						in.rep.WakeSites += 2
						in.needSim = true
						in.count++
						fi.loopHead(t.Body)
						continue
					}
				}
			}
			fi.loopHead(t.Body)
		case *ast.SwitchStmt:
			fi.exprs(t.Init)
			fi.exprs(t.Tag)
			fi.clauses(t.Body)
		case *ast.TypeSwitchStmt:
			fi.exprs(t.Init)
			fi.exprs(t.Assign)
			fi.clauses(t.Body)
		case *ast.SelectStmt:
			noRewrite := labeled
			for _, c := range t.Body.List {
				cc := c.(*ast.CommClause)
				cc.Body = fi.stmts(cc.Body)
				if cc.Comm != nil && wake {
					cc.Body = append([]ast.Stmt{callStmt("Woke")}, cc.Body...)
					in.rep.WakeSites++
					in.needSim = true
					in.count++
				}
			}
			if wake && !noRewrite {
				if blk := fi.selectTries(t); blk != nil {
					out = append(out, blk)
					in.rep.SelectSites++
					in.needSim = true
					in.count++
					continue
				}
			}
			if wake {
				out = append(out, callStmt("Blocking"))
				in.needSim = true
			}
		case *ast.LabeledStmt:
			fi.labeledNext = true // (a labelled select keeps its shape: `break L` must still name a select)
			orig := t.Stmt
			r := fi.stmts([]ast.Stmt{t.Stmt})
			fi.labeledNext = false
			at := 0 // the label stays on the statement itself, not on a call inserted before it
			for i := range r {
				if r[i] == orig {
					at = i
				}
			}
			out = append(out, r[:at]...)
			t.Stmt = r[at]
			out = append(out, t)
			out = append(out, r[at+1:]...)
			continue
		case *ast.GoStmt:
			fi.exprs(t.Call)
			if true {
				out = append(out, fi.goStmt(t))
				continue
			}
		case *ast.SendStmt:
			fi.exprs(t)
			if wake {
				out = append(out, callStmt("Blocking"), s, callStmt("Woke"))
				in.rep.WakeSites++
				in.needSim = true
				in.count++
				continue
			}
		default:
			fi.exprs(s)
			if wake {
				if d, ok := fi.isSleep(s); ok {
					// time.Sleep(d) -> simrt.SleepFor(d)
					blk := callStmt("SleepFor", d)
					in.sleepRewritten = true
					out = append(out, blk)
					in.rep.WakeSites++
					in.needSim = true
					in.count++
					continue
				}
				if fi.isSyncWait(s) {
					out = append(out, callStmt("Blocking"), s, callStmt("Woke"))
					in.rep.WakeSites++
					in.needSim = true
					in.count++
					continue
				}
				if hasRecv(s) {
					switch s.(type) {
					case *ast.ReturnStmt, *ast.DeferStmt:
						in.rep.Warnings = append(in.rep.Warnings, fmt.Sprintf("%s:%s: channel receive inside return/defer statement has no wake point", in.relFile, fi.fname))
					default:
						out = append(out, callStmt("Blocking"), s, callStmt("Woke"))
						in.rep.WakeSites++
						in.needSim = true
						in.count++
						continue
					}
				}
			}
		}
		out = append(out, s)
	}
	return out
}

// usesAtomic: does the statement itself (its expressions and headers, not nested blocks or function
// literals) call a function or method of sync/atomic?
func (fi *funcInstr) usesAtomic(s ast.Stmt) bool {
	var roots []ast.Node
	switch t := s.(type) {
	case *ast.ExprStmt, *ast.AssignStmt, *ast.IncDecStmt, *ast.ReturnStmt, *ast.SendStmt, *ast.DeclStmt, *ast.DeferStmt, *ast.GoStmt:
		roots = []ast.Node{s}
	case *ast.IfStmt:
		roots = []ast.Node{t.Init, t.Cond}
	case *ast.SwitchStmt:
		roots = []ast.Node{t.Init, t.Tag}
	case *ast.ForStmt:
		roots = []ast.Node{t.Init}
	default:
		return false
	}
	found := false
	for _, r := range roots {
		if r == nil || reflect.ValueOf(r).IsNil() {
			continue
		}
		ast.Inspect(r, func(n ast.Node) bool {
			if found {
				return false
			}
			switch x := n.(type) {
			case *ast.FuncLit:
				return false
			case *ast.CallExpr:
				se, ok := x.Fun.(*ast.SelectorExpr)
				if !ok {
					return true
				}
				if obj := fi.in.pkg.TypesInfo.Uses[se.Sel]; obj != nil && obj.Pkg() != nil && obj.Pkg().Path() == "sync/atomic" {
					found = true
				}
			}
			return true
		})
	}
	return found
}

// selectTries implements T6. It returns nil when the statement has fewer than two channel cases or
// a shape the rewrite does not preserve (labels or goto inside a case body).
func (fi *funcInstr) selectTries(t *ast.SelectStmt) ast.Stmt {
	in := fi.in
	var comm []*ast.CommClause
	for _, c := range t.Body.List {
		if cc := c.(*ast.CommClause); cc.Comm != nil {
			comm = append(comm, cc)
		}
	}
	if len(comm) < 2 {
		return nil
	}
	unsafe := false
	ast.Inspect(t, func(n ast.Node) bool {
		switch x := n.(type) {
		case *ast.LabeledStmt:
			unsafe = true
		case *ast.BranchStmt:
			if x.Tok == token.GOTO {
				unsafe = true
			}
		}
		return !unsafe
	})
	if unsafe {
		in.rep.Warnings = append(in.rep.Warnings, fmt.Sprintf("%s:%s: select with labels/goto in a case body keeps Go's own pick among ready cases", in.relFile, fi.fname))
		return nil
	}
	in.selectSeq++
	done := fmt.Sprintf("__simselDone%d", in.selectSeq)
	first := fmt.Sprintf("__simselFirst%d", in.selectSeq)
	text := func(n ast.Node) string {
		var b bytes.Buffer
		printer.Fprint(&b, in.fset, n)
		return b.String()
	}
	n := len(comm)
	var src strings.Builder
	fmt.Fprintf(&src, "package p\nfunc _() {\n{\n%s := %s.SelectFirst(%d)\n%s := false\n", first, simName, n, done)
	for p := 0; p < n; p++ {
		fmt.Fprintf(&src, "if !%s {\nswitch (%s + %d) %% %d {\n", done, first, p, n)
		for i, cc := range comm {
			try := *cc
			try.Body = append([]ast.Stmt{&ast.AssignStmt{Lhs: []ast.Expr{ast.NewIdent(done)}, Tok: token.ASSIGN, Rhs: []ast.Expr{ast.NewIdent("true")}}}, cc.Body...)
			fmt.Fprintf(&src, "case %d:\nselect {\n%s\ndefault:\n}\n", i, text(&try))
		}
		src.WriteString("}\n}\n")
	}
	if terminating(t, "") {
		// a select that ends its function ("terminating statement"): when a try succeeded its body has
		// already left, so the original statement needs no guard - and must not get one, or the
		// function would lack its final return
		fmt.Fprintf(&src, "%s.Blocking()\n%s\n}\n}\n", simName, text(t))
	} else {
		fmt.Fprintf(&src, "if !%s {\n%s.Blocking()\n%s\n}\n}\n}\n", done, simName, text(t))
	}
	f, err := parser.ParseFile(token.NewFileSet(), "select.go", src.String(), parser.SkipObjectResolution)
	if err != nil {
		in.rep.Warnings = append(in.rep.Warnings, fmt.Sprintf("%s:%s: select rewrite did not parse (%v): Go's own pick among ready cases is kept", in.relFile, fi.fname, err))
		in.selectSeq--
		return nil
	}
	blk := f.Decls[0].(*ast.FuncDecl).Body.List[0]
	clearPos(reflect.ValueOf(blk))
	return blk
}

// terminating implements the Go specification's "terminating statement" (label: the label of s, if any).
func terminating(s ast.Stmt, label string) bool {
	last := func(list []ast.Stmt) bool {
		for i := len(list) - 1; i >= 0; i-- {
			if _, empty := list[i].(*ast.EmptyStmt); empty {
				continue
			}
			return terminating(list[i], "")
		}
		return false
	}
	switch t := s.(type) {
	case *ast.ReturnStmt:
		return true
	case *ast.BranchStmt:
		return t.Tok == token.GOTO
	case *ast.ExprStmt:
		if c, ok := t.X.(*ast.CallExpr); ok {
			if id, ok := c.Fun.(*ast.Ident); ok && id.Name == "panic" {
				return true
			}
		}
	case *ast.BlockStmt:
		return last(t.List)
	case *ast.IfStmt:
		return t.Else != nil && terminating(t.Body, "") && terminating(t.Else, "")
	case *ast.ForStmt:
		return t.Cond == nil && !breaksOut(t.Body, label, true)
	case *ast.LabeledStmt:
		return terminating(t.Stmt, t.Label.Name)
	case *ast.SwitchStmt, *ast.TypeSwitchStmt, *ast.SelectStmt:
		var body *ast.BlockStmt
		needDefault := true
		switch x := t.(type) {
		case *ast.SwitchStmt:
			body = x.Body
		case *ast.TypeSwitchStmt:
			body = x.Body
		case *ast.SelectStmt:
			body, needDefault = x.Body, false
		}
		if breaksOut(body, label, true) {
			return false
		}
		hasDefault := false
		for _, c := range body.List {
			var list []ast.Stmt
			switch cc := c.(type) {
			case *ast.CaseClause:
				list, hasDefault = cc.Body, hasDefault || cc.List == nil
			case *ast.CommClause:
				list = cc.Body
			}
			if n := len(list); n > 0 {
				if b, ok := list[n-1].(*ast.BranchStmt); ok && b.Tok == token.FALLTHROUGH {
					continue
				}
			}
			if !last(list) {
				return false
			}
		}
		return hasDefault || !needDefault
	}
	return false
}

// breaksOut: does n contain a break that leaves the statement n is the body of (an unlabelled break not
// inside a nested for/switch/select, or a break naming label)?
func breaksOut(n ast.Node, label string, top bool) bool {
	found := false
	ast.Inspect(n, func(x ast.Node) bool {
		if found || x == nil {
			return false
		}
		switch t := x.(type) {
		case *ast.BranchStmt:
			if t.Tok == token.BREAK && (t.Label == nil && top || t.Label != nil && label != "" && t.Label.Name == label) {
				found = true
			}
		case *ast.ForStmt, *ast.RangeStmt, *ast.SwitchStmt, *ast.TypeSwitchStmt, *ast.SelectStmt:
			if x != n && top {
				// unlabelled breaks below here belong to the nested statement; labelled ones may still leave
				if label != "" && breaksOut(x, label, false) {
					found = true
				}
				return false
			}
		case *ast.FuncLit:
			return false
		}
		return true
	})
	return found
}

var posType = reflect.TypeOf(token.NoPos)

// clearPos zeroes every position in a subtree that was parsed from generated text, so that the
// printer lays it out by structure alone.
func clearPos(v reflect.Value) {
	switch v.Kind() {
	case reflect.Ptr, reflect.Interface:
		if !v.IsNil() {
			clearPos(v.Elem())
		}
	case reflect.Struct:
		if v.Type() == reflect.TypeOf(ast.Object{}) || v.Type() == reflect.TypeOf(ast.Scope{}) {
			return
		}
		for i := 0; i < v.NumField(); i++ {
			f := v.Field(i)
			if f.Type() == posType {
				if f.CanSet() {
					f.SetInt(0)
				}
				continue
			}
			clearPos(f)
		}
	case reflect.Slice:
		for i := 0; i < v.Len(); i++ {
			clearPos(v.Index(i))
		}
	}
}

func (fi *funcInstr) ifStmt(t *ast.IfStmt) {
	fi.exprs(t.Init)
	fi.exprs(t.Cond)
	if true && (t.Init != nil && hasRecv(t.Init) || hasRecv(t.Cond)) {
		fi.in.rep.Warnings = append(fi.in.rep.Warnings, fmt.Sprintf("%s:%s: channel receive in if header has no wake point", fi.in.relFile, fi.fname))
	}
	fi.block(t.Body)
	switch e := t.Else.(type) {
	case *ast.BlockStmt:
		fi.block(e)
	case *ast.IfStmt:
		fi.ifStmt(e)
	}
}

func (fi *funcInstr) clauses(b *ast.BlockStmt) {
	for _, c := range b.List {
		cc := c.(*ast.CaseClause)
		for _, e := range cc.List {
			fi.exprs(e)
		}
		cc.Body = fi.stmts(cc.Body)
	}
}

func (fi *funcInstr) loopHead(body *ast.BlockStmt) {
	if stepPkgs[fi.in.suffix] {
		body.List = append([]ast.Stmt{callStmt("Step")}, body.List...)
		fi.in.rep.StepSites++
		fi.in.needSim = true
		fi.in.count++
	}
}

func isBlank(e ast.Expr) bool {
	if e == nil {
		return true
	}
	id, ok := e.(*ast.Ident)
	return ok && id.Name == "_"
}

// capturesLoopVar reports whether the body takes the address of, or closes
// over, a variable defined by the range clause: the rewrite turns per-loop
// variables (Go 1.21 semantics of the repository) into per-iteration ones,
// which is only equivalent when neither happens.
func (fi *funcInstr) capturesLoopVar(t *ast.RangeStmt) bool {
	if t.Tok != token.DEFINE {
		return false
	}
	objs := map[types.Object]bool{}
	for _, e := range []ast.Expr{t.Key, t.Value} {
		if id, ok := e.(*ast.Ident); ok && id.Name != "_" {
			if o := fi.in.pkg.TypesInfo.Defs[id]; o != nil {
				objs[o] = true
			}
		}
	}
	found := false
	var inLit int
	var visit func(n ast.Node) bool
	visit = func(n ast.Node) bool {
		switch x := n.(type) {
		case *ast.FuncLit:
			inLit++
			ast.Inspect(x.Body, visit)
			inLit--
			return false
		case *ast.UnaryExpr:
			if x.Op == token.AND {
				if id, ok := x.X.(*ast.Ident); ok && objs[fi.in.pkg.TypesInfo.Uses[id]] {
					found = true
				}
			}
		case *ast.Ident:
			if inLit > 0 && objs[fi.in.pkg.TypesInfo.Uses[x]] {
				found = true
			}
		}
		return true
	}
	ast.Inspect(t.Body, visit)
	return found
}

func (fi *funcInstr) mapRange(t *ast.RangeStmt) {
	in := fi.in
	site := fmt.Sprintf("%s:%s#%d", strings.TrimPrefix(in.relFile, "homescript/"), fi.fname, fi.nMap)
	fi.nMap++
	if fi.capturesLoopVar(t) {
		in.rep.Warnings = append(in.rep.Warnings, "map range not rewritten (loop variable captured or its address taken): "+site)
		return
	}
	in.rep.MapSites = append(in.rep.MapSites, site)
	it := ast.NewIdent("__it")
	ok := ast.NewIdent("__ok")
	var pre []ast.Stmt
	tok := t.Tok
	if tok != token.DEFINE && tok != token.ASSIGN {
		tok = token.DEFINE
	}
	if !isBlank(t.Key) {
		pre = append(pre, &ast.AssignStmt{Lhs: []ast.Expr{t.Key}, Tok: tok, Rhs: []ast.Expr{&ast.SelectorExpr{X: it, Sel: ast.NewIdent("K")}}})
	}
	get := &ast.CallExpr{Fun: &ast.SelectorExpr{X: it, Sel: ast.NewIdent("Get")}}
	if !isBlank(t.Value) {
		if tok == token.DEFINE {
			pre = append(pre, &ast.AssignStmt{Lhs: []ast.Expr{t.Value, ok}, Tok: token.DEFINE, Rhs: []ast.Expr{get}})
		} else {
			pre = append(pre,
				&ast.DeclStmt{Decl: &ast.GenDecl{Tok: token.VAR, Specs: []ast.Spec{&ast.ValueSpec{Names: []*ast.Ident{ok}, Type: ast.NewIdent("bool")}}}},
				&ast.AssignStmt{Lhs: []ast.Expr{t.Value, ok}, Tok: token.ASSIGN, Rhs: []ast.Expr{get}})
		}
	} else {
		pre = append(pre, &ast.AssignStmt{Lhs: []ast.Expr{ast.NewIdent("_"), ok}, Tok: token.DEFINE, Rhs: []ast.Expr{get}})
	}
	pre = append(pre, &ast.IfStmt{
		Cond: &ast.UnaryExpr{Op: token.NOT, X: ok},
		Body: &ast.BlockStmt{List: []ast.Stmt{&ast.BranchStmt{Tok: token.CONTINUE}}},
	})
	t.Body.List = append(pre, t.Body.List...)
	t.X = &ast.CallExpr{Fun: sel("Iter"), Args: []ast.Expr{t.X, &ast.BasicLit{Kind: token.STRING, Value: strconv.Quote(site)}}}
	t.Key = ast.NewIdent("_")
	t.Value = it
	t.Tok = token.DEFINE
	in.needSim = true
	in.count++
}

// goStmt: go f(a, b) -> { __f := f; __a0 := a; __a1 := b; simrt.Go(func(){ __f(__a0, __a1) }) }
func (fi *funcInstr) goStmt(g *ast.GoStmt) ast.Stmt {
	in := fi.in
	in.rep.GoSites = append(in.rep.GoSites, in.relFile+":"+fi.fname)
	in.needSim = true
	in.count++
	call := g.Call
	if fl, ok := call.Fun.(*ast.FuncLit); ok && len(call.Args) == 0 {
		return callStmt("Go", fl)
	}
	var pre []ast.Stmt
	f := ast.NewIdent("__gof")
	pre = append(pre, &ast.AssignStmt{Lhs: []ast.Expr{f}, Tok: token.DEFINE, Rhs: []ast.Expr{call.Fun}})
	var args []ast.Expr
	for i, a := range call.Args {
		// nil and constants are not evaluated at the go statement: use them in place
		if tv, ok := in.pkg.TypesInfo.Types[a]; ok && (tv.IsNil() || tv.Value != nil) {
			args = append(args, a)
			continue
		}
		id := ast.NewIdent(fmt.Sprintf("__goa%d", i))
		pre = append(pre, &ast.AssignStmt{Lhs: []ast.Expr{id}, Tok: token.DEFINE, Rhs: []ast.Expr{a}})
		args = append(args, id)
	}
	inner := &ast.CallExpr{Fun: f, Args: args, Ellipsis: call.Ellipsis}
	lit := &ast.FuncLit{Type: &ast.FuncType{Params: &ast.FieldList{}}, Body: &ast.BlockStmt{List: []ast.Stmt{&ast.ExprStmt{X: inner}}}}
	pre = append(pre, callStmt("Go", lit))
	return &ast.BlockStmt{List: pre}
}
