package harness

// C14 — analysis, compilation and execution are deterministic.
//
// Every execution of every map-range site iterates in an order the simulator
// picks (T1); a seed fixes them all, plus the schedule of host vs core and
// whether the program is run again in the same process after other programs.

import (
	"fmt"
	"os"
	"path/filepath"
	"sort"
	"strings"
	"testing"
	"time"

	hms "github.com/smarthome-go/homescript/v3/homescript"
	"github.com/smarthome-go/homescript/v3/homescript/runtime"
	"verif.local/simrt"
)

func init() {
	runners["C14"] = runC14
	planners["C14"] = planC14
	shrinkers["C14"] = shrinkMapSites
}

type progOutcome struct {
	Syntax  string
	Diags   string
	Compile string
	Out     string
	Outcome string
	Msg     string
	Panic   string
}

// diffOutcome names the first component that differs ("" when equal).
func diffOutcome(a, b progOutcome) (component, detail string) {
	switch {
	case a.Syntax != b.Syntax:
		return "syntax-errors", fmt.Sprintf("%q vs %q", clip(a.Syntax), clip(b.Syntax))
	case a.Diags != b.Diags:
		return "diagnostics", firstDiffLine(a.Diags, b.Diags)
	case a.Compile != b.Compile:
		return "compile-result", fmt.Sprintf("%q vs %q", clip(a.Compile), clip(b.Compile))
	case a.Panic != b.Panic:
		return "outcome", fmt.Sprintf("panic %q vs %q", clip(a.Panic), clip(b.Panic))
	case a.Outcome != b.Outcome:
		return "outcome", fmt.Sprintf("%s (%s) vs %s (%s)", a.Outcome, clip(a.Msg), b.Outcome, clip(b.Msg))
	case a.Out != b.Out:
		return "output", firstDiffLine(a.Out, b.Out)
	case a.Msg != b.Msg:
		return "outcome-message", fmt.Sprintf("%q vs %q", clip(a.Msg), clip(b.Msg))
	}
	return "", ""
}

func clip(s string) string {
	if len(s) > 160 {
		return s[:160] + "..."
	}
	return s
}

func firstDiffLine(a, b string) string {
	la, lb := strings.Split(a, "\n"), strings.Split(b, "\n")
	for i := 0; i < len(la) || i < len(lb); i++ {
		var x, y string
		if i < len(la) {
			x = la[i]
		}
		if i < len(lb) {
			y = lb[i]
		}
		if x != y {
			return fmt.Sprintf("line %d: %q vs %q", i, clip(x), clip(y))
		}
	}
	return "?"
}

// runProgramReusingAnalysis: one analysis result, used for two compilations and VM runs and then for an
// interpreter run (an analysis result is a value: using it twice is the same sources twice).
func runProgramReusingAnalysis(p Program, prov Provider) []progOutcome {
	a := Analyze(p, prov)
	var outs []progOutcome
	for k := 0; k < 3; k++ {
		out := &Out{}
		po := progOutcome{Syntax: strings.Join(a.Syntax, "\n"), Diags: strings.Join(a.Diags, "\n")}
		func() {
			defer func() {
				if r := recover(); r != nil {
					po.Panic = panicCategoryH(fmt.Sprint(r))
				}
			}()
			if a.PanicMsg != "" || len(a.Syntax) > 0 || a.Errors > 0 {
				return
			}
			if k < 2 {
				co, err := Compile(a, p.Entry)
				if err != nil {
					po.Compile = err.Error()
					return
				}
				ctx := NewCtx()
				env := &vmEnv{prog: &compiled{an: a, out: co}, out: out, ctx: ctx, exec: NewVMExec(out), limits: generousLimits}
				env.boot()
				env.vm.SpawnAsync(runtime.MainFn(), nil, nil, nil)
				num, i := env.vm.Wait()
				o := classify(num, i)
				po.Outcome, po.Msg = o.Kind, o.Msg
			} else {
				ctx := NewCtx()
				ctxp, _ := ctx.AsContext()
				i := hms.Run(2000, a.Modules, p.Entry, TreeExec{Out: out}, hms.TestingInterpreterScopeAdditions(), ctxp)
				o := classifyTree(i)
				po.Outcome, po.Msg = o.Kind, o.Msg
			}
		}()
		po.Out = out.Text()
		outs = append(outs, po)
	}
	return outs
}

// runProgram analyses, compiles and runs one program on one backend. It is
// called from the host task of a simulation (or outside any, for filtering).
func runProgram(p Program, backend int, prov Provider, out *Out) (po progOutcome) {
	defer func() {
		if r := recover(); r != nil {
			po.Panic = panicCategoryH(fmt.Sprint(r))
			po.Out = out.Text()
		}
	}()
	a := Analyze(p, prov)
	po.Syntax = strings.Join(a.Syntax, "\n")
	po.Diags = strings.Join(a.Diags, "\n")
	if a.PanicMsg != "" {
		po.Panic = "analyzer: " + panicCategoryH(a.PanicMsg)
		return po
	}
	if len(a.Syntax) > 0 || a.Errors > 0 {
		return po
	}
	if backend == 0 {
		co, err := Compile(a, p.Entry)
		if err != nil {
			po.Compile = err.Error()
			return po
		}
		ctx := NewCtx()
		out.onCancel = func() { ctx.Fire("inside a host call") }
		env := &vmEnv{prog: &compiled{an: a, out: co}, out: out, ctx: ctx, exec: NewVMExec(out), limits: generousLimits}
		env.boot()
		env.vm.SpawnAsync(runtime.MainFn(), nil, nil, nil)
		num, i := env.vm.Wait()
		o := classify(num, i)
		po.Outcome, po.Msg = o.Kind, o.Msg
	} else {
		ctx := NewCtx()
		out.onCancel = func() { ctx.Fire("inside a host call") }
		ctxp, _ := ctx.AsContext()
		i := hms.Run(2000, a.Modules, p.Entry, TreeExec{Out: out}, hms.TestingInterpreterScopeAdditions(), ctxp)
		o := classifyTree(i)
		po.Outcome, po.Msg = o.Kind, o.Msg
	}
	po.Out = out.Text()
	return po
}

func panicCategoryH(v string) string {
	// keep the message but drop addresses
	if i := strings.Index(v, "0x"); i >= 0 {
		v = v[:i]
	}
	return clip(v)
}

// ---- corpus ----

type c14Prog struct {
	name string
	prog Program
}

var c14Targeted = []c14Prog{
	{"obj-print", Single(`
fn main() {
    let o = new { alpha: 1, beta: "two", gamma: 3.5, delta: true, eps: [1, 2], zeta: new { x: 1, y: 2 } };
    println(o);
    println(o.keys());
    let p = new { alpha: 1, beta: "two", gamma: 3.5, delta: true, eps: [1, 2], zeta: new { x: 1, y: 2 } };
    println(o == p);
    println([o, p].len());
}`)},
	{"obj-json", Single(`
fn main() {
    let o = new { b: 1, a: "x", c: [1, 2, 3], d: new { z: 1, y: 2 } };
    println(o.to_json());
    println(o.to_json_indent());
    let back: { b: int, a: str, c: [int], d: { z: int, y: int } } = o.to_json().parse_json();
    println(back);
}`)},
	{"anyobj", Single(`
fn main() {
    let a = new { foo: 42, bar: "baz", quux: 1.5 } as { ? };
    println(a);
    println(a.keys());
    println(a.to_json());
    let b: int = a.get("foo").unwrap();
    println(b);
}`)},
	{"locals-shadowing", Single(`
fn f(a: int, b: int) -> int {
    let c = a + b;
    let d = c * 2;
    { let c = d + 1; let d = c + 1; println(c, d); }
    let e = c + d;
    e
}
fn main() {
    let a = 1; let b = 2; let c = 3; let d = 4; let e = 5; let g = 6; let h = 7;
    println(f(a, b), f(c, d), f(e, g), h);
    let a = "shadow";
    println(a);
}`)},
	{"warnings", Single(`
fn unused_fn() {}
fn main() {
    let unused_a = 1;
    let unused_b = 2;
    let unused_c = 3;
    println("w");
}`)},
	{"warnings-same-line", Single(`
fn area(width: int, height: int) -> int { 42 }
fn main() {
    let a = 1; let b = 2; let c = 3;
    println(area(1, 2));
}`)},
	{"closure-captures-local", Single(`
fn main() {
    let outer = 5;
    let f = fn(n: int) -> int { n + outer };
    println(f(2));
}`)},
	{"iterate-left-early", Single(`
fn find(s: str, stop: int) -> int {
    let n = 0;
    for ch in s {
        if n == stop { return n; }
        println("find", s, n, ch);
        n = n + 1;
    }
    0 - 1
}
fn main() {
    let n = 0;
    for ch in "homescript" {
        n = n + 1;
        if n == 3 { break; }
        println("ch", ch);
    }
    for ch in "homescript" { println("again", ch); }
    println(find("homescript", 4), find("homescript", 4), find("homescript", 40));
    try {
        let k = 0;
        for ch in "throwing" { k = k + 1; if k == 5 { throw("left at 5"); } println("t", ch); }
    } catch e { println(e.message); }
    for ch in "throwing" { println("t2", ch); }
    let l = [10, 20, 30, 40];
    for v in l { if v == 30 { break; } println("v", v); }
    for v in l { println("v2", v); }
    for i in 0..10 { if i == 3 { break; } println("i", i); }
}`)},
	{"iterate-nested-same-string", Single(`
fn main() {
    let word = "abc";
    let outer = 0;
    for a in word {
        outer = outer + 1;
        if outer > 5 { break; }
        let inner = 0;
        for b in word { inner = inner + 1; if inner == 2 { break; } println(a, b); }
    }
    for a in "xyz" { let m = 0; for b in "xyz" { m = m + 1; if m > 4 { break; } println(a, b); } }
}`)},
	{"long-output-then-index-fatal", Single(`
fn work(n: int) -> int { let acc = 0; for i in 0..n { acc = (acc + i * i) % 1000; } acc }
fn main() {
    let data = [3, 1, 4, 1, 5];
    for round in 0..300 {
        println("round", round, work(30 + round % 3));
    }
    println(data[7]);
}`)},
	{"long-output-then-assert-fatal", Program{Entry: "main", Modules: map[string]string{"main": `import assert_eq from testing;
fn work(n: int) -> int { let acc = 0; for i in 0..n { acc = (acc + i * 7) % 1000; } acc }
fn main() {
    for round in 0..200 {
        print("row ", round, " ", work(20 + round % 5), "\n");
    }
    assert_eq(1, 2);
}`}}},
	{"long-output-then-throw", Single(`
fn work(n: int) -> int { let acc = 0; for i in 0..n { acc = (acc + i) % 1000; } acc }
fn main() {
    let l = [1];
    for round in 0..200 {
        println("line", round, work(25));
    }
    l.remove(99);
    throw("never");
}`)},
	{"member-suggestions", Single(`
type Pos = { pos_x: int, pos_y: int };
fn main() {
    let p: Pos = new { pos_x: 1, pos_y: 2 };
    println(p.pos_z);
    let q = new { aa: 1, ab: 2, ba: 3, bb: 4 };
    println(q.ac, q.cb, q.xx);
    let s = "str";
    println(s.lenn(), s.to_strin());
    let l = [1];
    println(l.puhs(2), l.lem());
}`)},
	{"print-loop-with-work", Single(`
fn main() {
    let total = 0;
    for i in 0..60 {
        println("line", i);
        let a = 0;
        for j in 0..(i % 7) { a = a + j; }
        total = total + a;
        print("t", total, "\n");
    }
    println("end", total);
}`)},
	{"lexical-error-after-soft-errors", Single("fn main() {\n    let a = 1\n    let b = 2\n    println(a, b);\n    let s = \"never closed;\n}\n")},
	{"lexical-error-in-imported-module", Program{Entry: "main", Modules: map[string]string{
		"main": "import { f } from lexlib;\nfn main() { f() }\n",
		"lexlib": "pub fn f() {\n    let a = 1\n    let c = 'x\n    let b = 2 $ 3;\n}\nfn main() {}\n",
	}}},
	{"local-types", Single(`
fn area() -> float {
    type Rect = { w: float, h: float };
    type Scale = float;
    let r: Rect = new { w: 2.5, h: 4.3 };
    let s: Scale = 2.0;
    r.w * r.h * s
}
fn main() {
    type Pair = { a: int, b: float };
    type Id = int;
    let p: Pair = new { a: 21, b: 70.7 };
    let i: Id = 1;
    println(p.a, p.b, i, area());
}`)},
	{"many-warnings", Single("fn main() {\n    let unused_00 = 0;\n    let unused_01 = 1;\n    let unused_02 = 2;\n    let unused_03 = 3;\n    let unused_04 = 4;\n    let unused_05 = 5;\n    let unused_06 = 6;\n    let unused_07 = 7;\n    let unused_08 = 8;\n    let unused_09 = 9;\n    let unused_10 = 10;\n    let unused_11 = 11;\n    let unused_12 = 12;\n    let unused_13 = 13;\n    let unused_14 = 14;\n    let unused_15 = 15;\n    let unused_16 = 16;\n    let unused_17 = 17;\n    let unused_18 = 18;\n    let unused_19 = 19;\n    let unused_20 = 20;\n    let unused_21 = 21;\n    let unused_22 = 22;\n    let unused_23 = 23;\n    let unused_24 = 24;\n    let unused_25 = 25;\n    let unused_26 = 26;\n    let unused_27 = 27;\n    let unused_28 = 28;\n    let unused_29 = 29;\n    let unused_30 = 30;\n    let unused_31 = 31;\n    let unused_32 = 32;\n    let unused_33 = 33;\n    let unused_34 = 34;\n    let unused_35 = 35;\n    let unused_36 = 36;\n    let unused_37 = 37;\n    let unused_38 = 38;\n    let unused_39 = 39;\n    let unused_40 = 40;\n    let unused_41 = 41;\n    let unused_42 = 42;\n    let unused_43 = 43;\n    println(\"w\");\n}\nfn spare_a() {}\nfn spare_b() {}\n")},
	{"very-many-warnings", Single("let unused_g00 = 0;\nlet unused_g01 = 1;\nlet unused_g02 = 2;\nlet unused_g03 = 3;\nlet unused_g04 = 4;\nlet unused_g05 = 5;\nlet unused_g06 = 6;\nlet unused_g07 = 7;\nlet unused_g08 = 8;\nlet unused_g09 = 9;\nlet unused_g10 = 10;\nlet unused_g11 = 11;\nlet unused_g12 = 12;\nlet unused_g13 = 13;\nlet unused_g14 = 14;\nlet unused_g15 = 15;\nlet unused_g16 = 16;\nlet unused_g17 = 17;\nlet unused_g18 = 18;\nlet unused_g19 = 19;\nlet unused_g20 = 20;\nlet unused_g21 = 21;\nlet unused_g22 = 22;\nlet unused_g23 = 23;\nlet unused_g24 = 24;\nlet unused_g25 = 25;\nlet unused_g26 = 26;\nlet unused_g27 = 27;\nlet unused_g28 = 28;\nlet unused_g29 = 29;\nlet unused_g30 = 30;\nlet unused_g31 = 31;\nlet unused_g32 = 32;\nlet unused_g33 = 33;\nlet unused_g34 = 34;\nlet unused_g35 = 35;\nlet unused_g36 = 36;\nlet unused_g37 = 37;\nlet unused_g38 = 38;\nlet unused_g39 = 39;\nlet unused_g40 = 40;\nlet unused_g41 = 41;\nlet unused_g42 = 42;\nlet unused_g43 = 43;\nlet unused_g44 = 44;\nlet unused_g45 = 45;\nlet unused_g46 = 46;\nlet unused_g47 = 47;\nlet unused_g48 = 48;\nlet unused_g49 = 49;\nlet unused_g50 = 50;\nlet unused_g51 = 51;\nlet unused_g52 = 52;\nlet unused_g53 = 53;\nlet unused_g54 = 54;\nlet unused_g55 = 55;\nlet unused_g56 = 56;\nlet unused_g57 = 57;\nlet unused_g58 = 58;\nlet unused_g59 = 59;\nlet unused_g60 = 60;\nlet unused_g61 = 61;\nlet unused_g62 = 62;\nlet unused_g63 = 63;\nlet unused_g64 = 64;\nlet unused_g65 = 65;\nlet unused_g66 = 66;\nlet unused_g67 = 67;\nlet unused_g68 = 68;\nlet unused_g69 = 69;\nfn main() {\n    let unused_00 = 0;\n    let unused_01 = 1;\n    let unused_02 = 2;\n    let unused_03 = 3;\n    let unused_04 = 4;\n    let unused_05 = 5;\n    let unused_06 = 6;\n    let unused_07 = 7;\n    let unused_08 = 8;\n    let unused_09 = 9;\n    let unused_10 = 10;\n    let unused_11 = 11;\n    let unused_12 = 12;\n    let unused_13 = 13;\n    let unused_14 = 14;\n    let unused_15 = 15;\n    let unused_16 = 16;\n    let unused_17 = 17;\n    let unused_18 = 18;\n    let unused_19 = 19;\n    let unused_20 = 20;\n    let unused_21 = 21;\n    let unused_22 = 22;\n    let unused_23 = 23;\n    let unused_24 = 24;\n    let unused_25 = 25;\n    let unused_26 = 26;\n    let unused_27 = 27;\n    let unused_28 = 28;\n    let unused_29 = 29;\n    let unused_30 = 30;\n    let unused_31 = 31;\n    let unused_32 = 32;\n    let unused_33 = 33;\n    let unused_34 = 34;\n    let unused_35 = 35;\n    let unused_36 = 36;\n    let unused_37 = 37;\n    let unused_38 = 38;\n    let unused_39 = 39;\n    let unused_40 = 40;\n    let unused_41 = 41;\n    let unused_42 = 42;\n    let unused_43 = 43;\n    let unused_44 = 44;\n    let unused_45 = 45;\n    let unused_46 = 46;\n    let unused_47 = 47;\n    let unused_48 = 48;\n    let unused_49 = 49;\n    let unused_50 = 50;\n    let unused_51 = 51;\n    let unused_52 = 52;\n    let unused_53 = 53;\n    let unused_54 = 54;\n    let unused_55 = 55;\n    let unused_56 = 56;\n    let unused_57 = 57;\n    let unused_58 = 58;\n    let unused_59 = 59;\n    let unused_60 = 60;\n    let unused_61 = 61;\n    let unused_62 = 62;\n    let unused_63 = 63;\n    let unused_64 = 64;\n    let unused_65 = 65;\n    let unused_66 = 66;\n    let unused_67 = 67;\n    let unused_68 = 68;\n    let unused_69 = 69;\n    let unused_70 = 70;\n    let unused_71 = 71;\n    let unused_72 = 72;\n    let unused_73 = 73;\n    let unused_74 = 74;\n    let unused_75 = 75;\n    let unused_76 = 76;\n    let unused_77 = 77;\n    let unused_78 = 78;\n    let unused_79 = 79;\n    println(\"w\");\n}\nfn other() {\n    let idle_00 = 0;\n    let idle_01 = 1;\n    let idle_02 = 2;\n    let idle_03 = 3;\n    let idle_04 = 4;\n    let idle_05 = 5;\n    let idle_06 = 6;\n    let idle_07 = 7;\n    let idle_08 = 8;\n    let idle_09 = 9;\n    let idle_10 = 10;\n    let idle_11 = 11;\n    let idle_12 = 12;\n    let idle_13 = 13;\n    let idle_14 = 14;\n    let idle_15 = 15;\n    let idle_16 = 16;\n    let idle_17 = 17;\n    let idle_18 = 18;\n    let idle_19 = 19;\n    let idle_20 = 20;\n    let idle_21 = 21;\n    let idle_22 = 22;\n    let idle_23 = 23;\n    let idle_24 = 24;\n    let idle_25 = 25;\n    let idle_26 = 26;\n    let idle_27 = 27;\n    let idle_28 = 28;\n    let idle_29 = 29;\n    let idle_30 = 30;\n    let idle_31 = 31;\n    let idle_32 = 32;\n    let idle_33 = 33;\n    let idle_34 = 34;\n    let idle_35 = 35;\n    let idle_36 = 36;\n    let idle_37 = 37;\n    let idle_38 = 38;\n    let idle_39 = 39;\n}\n")},
	{"fails-at-once", Single(`
fn main() {
    println("before");
    throw("boom");
}`)},
	{"three-imports-one-broken", Program{Entry: "main", Modules: map[string]string{
		"main":   "import { helper } from helper;\nimport { broken } from broken;\nimport { other } from other;\nfn main() { helper(); broken(); other(); let t: str = 1; }\n",
		"helper": "pub fn helper() { let unused_h = 1; println(\"helper\"); }\nfn spare() {}\nfn main() {}\n",
		"broken": "pub fn broken() {\n    let a = (1 + ;\n}\nfn main() {}\n",
		"other":  "pub fn other() -> int { let unused_o = 2; \"not an int\" }\nfn main() {}\n",
	}}},
	{"two-imports-broken-first", Program{Entry: "main", Modules: map[string]string{
		"main":   "import { broken } from broken;\nimport { helper } from helper;\nfn main() { broken(); helper(); }\n",
		"helper": "pub fn helper() { let unused_h = 1; let s: int = \"x\"; }\nfn main() {}\n",
		"broken": "pub fn broken() { let s = \"never closed;\n}\nfn main() {}\n",
	}}},
	{"string-object-keys", Single(`
type Reading = { "sensor id": int, value: float };
fn main() {
    let o = new { "sensor id": 7, plain: 2 };
    println(o, o.plain);
    let r: Reading = new { "sensor id": 3, value: 2.5 };
    println(r.value, r);
}`)},
	{"options-in-compound-values", Single(`
fn main() {
    let lamp: { last_motion: ?int, name: str } = new { last_motion: none, name: "l" };
    println("before:", lamp.last_motion);
    lamp.last_motion = ?17;
    println(lamp.last_motion);
    let l: [?int] = [none, none];
    l[0] = ?3;
    println(l);
    let again: [?int] = [none];
    println("fresh none:", again[0], none);
    let t = [true, false];
    t[1] = t[0];
    println(t, 1 == 2, 1 == 1);
    let zero = [0, 1];
    zero[0] = zero[0] + 5;
    println(zero, 0, 1);
}`)},
	{"debug-after-nap", Single(`
fn main() {
    debug("start");
    let acc = 0;
    for i in 0..200 { acc = (acc + i * i) % 97; }
    debug("after work", acc);
    time.sleep(0.03);
    debug("after the nap", 57);
    println("done");
}`)},
	{"sort-with-ties", Single(`
fn main() {
    let nz = 0.0 * (0.0 - 1.0);
    let fl = [3.5, 0.0, 2.0, nz, 1.0, 9.0, 8.0, nz, 7.0, 6.0, 0.0, 5.0, 4.0, 3.0, 2.5, 1.5, 0.5, 0.0, nz, 2.0, 2.0, 7.5, 6.5, 5.5];
    fl.sort();
    println(fl);
    let il = [5, 3, 5, 1, 3, 9, 0, 0, 7, 7, 2, 8, 6, 4, 5, 3, 1, 9];
    il.sort();
    println(il);
    let sl = ["b", "a", "b", "c", "a", "d", "aa", "ab", "a", "b", "c", "z", "y", "x", "a"];
    sl.sort();
    println(sl);
}`)},
	{"limit-error-with-compound-operands", Single(`
fn same(l: [int]) -> [int] { if l == same(l) { l } else { l } }
fn main() { println(same([1, 2])); }`)},
	{"limit-error-with-object-operands", Single(`
fn grow(o: { n: int, tag: str }) -> { n: int, tag: str } { let p = new { n: o.n + 1, tag: o.tag }; if grow(p).n > 0 { p } else { o } }
fn main() { println(grow(new { n: 0, tag: "t" })); }`)},
	{"cast-two-wrong-fields", Single(`
fn main() {
    try {
        let b: { x: int, y: int, z: int } = '{"x": "s", "y": "t", "z": 1}'.parse_json();
        println(b);
    } catch e {
        println(e.message);
    }
    try {
        let l: [{ x: int, y: int }] = '[{"x": 1, "y": 2}, {"x": "a", "y": "b"}]'.parse_json();
        println(l);
    } catch e {
        println(e.message);
    }
    let c = new { p: 1, q: 2, r: 3 };
    let d = new { p: 9, q: 8, r: 3 };
    println(c == d, c == c);
}`)},
	{"three-module-init-order", Program{Entry: "main", Modules: map[string]string{
		"main": `import { fa } from ia;
import { fb } from ib;
import { fc } from ic;
import assert_eq from testing;
fn main() { fa(); fb(); fc(); assert_eq(1, 1); }`,
		"ia": `import assert_eq from testing;
let a = "ia";
pub fn fa() { println(a); assert_eq(a, "ia"); }
fn main() {}`,
		"ib": `import assert_eq from testing;
let a = "ib";
pub fn fb() { println(a); assert_eq(a, "ib"); }
fn main() {}`,
		"ic": `let a = "ic";
pub fn fc() { println(a); }
fn main() {}`,
	}}},
	{"runtime-error-trace", Single(`
fn deep(n: int) -> int { if n == 0 { 1 / n } else { deep(n - 1) + 1 } }
fn other() -> int { let l = [1, 2]; l[5] }
fn main() {
    let f = fn() -> int { 1 };
    println(f());
    println(deep(3));
}`)},
	{"conflicting-definitions", Single(`
fn dup() {}
fn dup() {}
let g = 1;
let g = 2;
type T = int;
type T = str;
fn main() { dup(); println(g); }`)},
	{"lambda-names", Single(`
fn main() {
    let f = fn() -> int { 1 };
    let g = fn(x: int) -> int { 10 / x };
    println(f);
    println(f(), g(2));
    println(g(0));
}`)},
	{"excess-object-fields", Single(`
type Point = { x: int, y: int };
fn main() {
    let origin: Point = new { x: 0, y: 0, z: 0, label: "origin", w: 1.5 };
    let other: { a: str } = new { a: "s", b: 1, c: 2 };
    println(origin, other);
}`)},
	{"object-literal-eval-order", Single(`
let counter = 0;
fn next(tag: str) -> int { counter = counter + 1; println("next", tag, counter); counter }
fn main() {
    let o = new { id: next("id"), serial: next("serial"), batch: next("batch"), fixed: 7 };
    println(o.id, o.serial, o.batch, o.fixed);
    let zero = 0;
    let l = [1];
    let p = new { a: 1 / zero, b: l[5] };
    println(p);
}`)},
	{"anyobj-equality-mixed", Single(`
fn main() {
    let a = new { p: 1, q: "x", r: 2.5, s: true } as { ? };
    let b = new { p: 1, q: 7, r: "y", s: true } as { ? };
    try {
        println(a == b);
    } catch e {
        println("cmp failed", e.message);
    }
    let o = new { k1: [1, 2], k2: [1, 2], k3: "z" };
    let c = o;
    println(o == c, o.keys());
    for k in o.keys() { println("key", k); }
}`)},
	{"ill-typed-both-operands", Single(`
fn f(a: int, b: str) -> int { a }
fn main() {
    let x = "s" + 1;
    let y = true * "t";
    let z = f("a", 2) + f(1);
    if 1 { } else { }
    match x { 1 => { }, "s" => { } }
    println(fooo1, fooo2);
    let foo1 = 1; let foo2 = 2;
    println(foo3);
}`)},
	{"impl-and-templates", Single(`
type Animal = { name: str, legs: int };
fn describe(a: Animal) -> str { a.name + ":" + a.legs.to_string() }
fn main() {
    let cat: Animal = new { name: "cat", legs: 4 };
    let bad: Animal = new { name: 1, legs: "four" };
    let missing: Animal = new { };
    println(describe(cat), describe(bad), missing);
}`)},
	{"type-errors", Single(`
fn f(a: int) -> str { a }
fn main() {
    let x: int = "s";
    let y: str = 1;
    undefined_fn();
    println(z);
    f("a", 2);
}`)},
	{"many-globals-fns", Single(`
let g1 = 1; let g2 = 2; let g3 = 3; let g4 = 4; let g5 = 5;
fn f1() -> int { g1 } fn f2() -> int { g2 + f1() } fn f3() -> int { g3 + f2() } fn f4() -> int { g4 + f3() } fn f5() -> int { g5 + f4() }
fn main() { println(f5(), f4(), f3(), f2(), f1()); g1 = 10; println(f5()); }`)},
	{"modules-distinct", Program{Entry: "main", Modules: map[string]string{
		"main": `import { fa, A } from moda;
import { fb } from modb;
fn main() { fa(); fb(); println(A); fa(); }`,
		"moda": `pub let A = "moda.A";
let pa = "moda.pa";
pub fn fa() { println("moda.fa", A, pa); pa = pa + "!"; }
fn main() {}`,
		"modb": `let pb = "modb.pb";
pub fn fb() { println("modb.fb", pb); helperb(); }
fn helperb() { println("modb.helperb"); }
fn main() {}`,
	}}},
	{"unused-imports-one-line", Program{Entry: "main", Modules: map[string]string{
		"main": "import { a, b, c, d } from lib;\nimport { e, f } from lib2;\nfn main() { println(1); }",
		"lib":  "pub fn a() {}\npub fn b() {}\npub let c = 1;\npub let d = 2;\nfn main() {}",
		"lib2": "pub fn e() {}\npub fn f() {}\nfn main() {}",
	}}},
	{"cycle-through-entry", Program{Entry: "main", Modules: map[string]string{
		"main": "import { f } from lib;\npub fn back() {}\nfn main() { f(); }",
		"lib":  "import { back } from main;\npub fn f() { println(\"lib.f\"); }\nfn main() {}",
	}}},
	{"cycle-of-three", Program{Entry: "main", Modules: map[string]string{
		"main": "import { fa } from ca;\nfn main() { fa(); }",
		"ca":   "import { fb } from cb;\nlet unused_a = 1;\npub fn fa() { fb(); }\nfn main() {}",
		"cb":   "import { fc } from cc;\npub fn fb() { fc(); }\nfn main() {}",
		"cc":   "import { fa } from ca;\npub fn fc() { }\nfn unused_c() {}\nfn main() {}",
	}}},
	{"modules-overlap", Program{Entry: "main", Modules: map[string]string{
		"main": `import { f } from ma;
import { g } from mb;
let x = "main.x";
fn main() { f(); g(); println(x); }`,
		"ma": `let x = "ma.x";
pub fn f() { println("ma.f", x); }
fn g() { println("ma.g"); }
fn main() {}`,
		"mb": `let x = "mb.x";
pub fn g() { println("mb.g", x); f(); }
fn f() { println("mb.f", x); }
fn main() {}`,
	}}},
}

var c14Corpus []c14Prog
var c14Skipped []string

func loadCorpus() {
	if c14Corpus != nil {
		return
	}
	c14Corpus = append(c14Corpus, c14Targeted...)
	for gi := 0; gi < 24; gi++ {
		gs := uint64(1000 + gi*37)
		src := genFunctions(gs, 2) + "fn main() { for i in 0..6 { println(\"g\", e0(i), e1(i + 1)); } }\n"
		c14Corpus = append(c14Corpus, c14Prog{fmt.Sprintf("generated-%d", gs), Single(src)})
	}
	root := os.Getenv("SIMCHECK_REPO")
	if root == "" {
		root = "/repo"
	}
	for _, dir := range []string{"examples", "tests"} {
		files, _ := filepath.Glob(filepath.Join(root, dir, "*.hms"))
		sort.Strings(files)
		mods := map[string]string{}
		for _, f := range files {
			b, err := os.ReadFile(f)
			if err == nil {
				mods[strings.TrimSuffix(filepath.Base(f), ".hms")] = string(b)
			}
		}
		for _, f := range files {
			name := strings.TrimSuffix(filepath.Base(f), ".hms")
			if !strings.Contains(mods[name], "fn main") {
				continue
			}
			c14Corpus = append(c14Corpus, c14Prog{dir + "/" + name, Program{Entry: name, Modules: mods}})
		}
	}
}

type c14Base struct {
	po    progOutcome
	steps int64
	skip  string
}

var c14Bases = map[string]*c14Base{}

func c14SimParams() SimParams { return SimParams{StepCostNs: 100} }

// c14Running names the program being executed (for attributing a crash).
var c14Running string

func c14Exec(t *testing.T, spec RunSpec, progs []c14Prog, backend int) (*simrt.Result, []progOutcome) {
	var outs []progOutcome
	cfg := simConfig(spec.Sim)
	cfg.TaskStepBudget = 1_600_000
	res := simrt.Run(t, cfg, simSource(spec), func(s *simrt.Sim) {
		s.SetDeadline("program-returns", 2*time.Hour)
		for _, p := range progs {
			out := &Out{CancelAt: spec.P("cancel_at_write", 0)}
			c14Running = p.name
			po := runProgram(p.prog, backend, NewProvider(p.prog.Modules), out)
			s.Logf("program %s -> %s out=%d bytes", p.name, po.Outcome, len(po.Out))
			outs = append(outs, po)
			s.Settle(time.Second)
		}
	})
	return res, outs
}

// c14Baseline: the sorted-order, default-schedule run of a program.
func c14Baseline(t *testing.T, p c14Prog, backend int, cancelAt ...int) *c14Base {
	ca := 0
	if len(cancelAt) > 0 {
		ca = cancelAt[0]
	}
	key := fmt.Sprintf("%s/%d/%d", p.name, backend, ca)
	if b, ok := c14Bases[key]; ok {
		return b
	}
	b := &c14Base{}
	c14Bases[key] = b
	spec := RunSpec{Property: "C14", Sim: c14SimParams(), Choices: &simrt.Sparse{}}
	if ca > 0 {
		spec.Params = map[string]int{"cancel_at_write": ca}
	}
	res, outs := c14Exec(t, spec, []c14Prog{p}, backend)
	if res.Outcome == "crash" {
		// a crash of the sorted-order run is that program's outcome: what matters here is
		// whether every other order crashes the same way
		b.po = progOutcome{Outcome: "crash", Panic: res.Sig}
		b.steps = res.Steps
		return b
	}
	if res.Outcome != "ok" || len(outs) != 1 {
		b.skip = "baseline run: " + res.Outcome + " " + clip(res.Detail)
		if strings.Contains(res.Detail, "step budget") {
			b.skip = "too long for the corpus (more than 1.6M steps)"
		}
		return b
	}
	b.po = outs[0]
	b.steps = res.Steps
	return b
}

func runC14(t *testing.T, spec RunSpec) *Verdict {
	const P = "C14"
	v := &Verdict{}
	loadCorpus()
	pi := spec.P("prog", 0)
	backend := spec.P("backend", 0)
	if pi >= len(c14Corpus) {
		v.fail(P, "infra", "", "", "program index out of range")
		return v
	}
	p := c14Corpus[pi]
	cell := p.name + "/" + []string{"vm", "interp"}[backend]
	if spec.P("first_in_process", 0) == 1 {
		return runC14First(t, spec, p, backend)
	}
	if spec.P("reuse_analysis", 0) == 1 {
		cell := p.name + ":one-analysis-used-three-times"
		var outs []progOutcome
		cfg := simConfig(spec.Sim)
		cfg.TaskStepBudget = 3_000_000
		res := simrt.Run(t, cfg, simSource(spec), func(s *simrt.Sim) {
			s.SetDeadline("program-returns", 2*time.Hour)
			outs = runProgramReusingAnalysis(p.prog, NewProvider(p.prog.Modules))
			s.Settle(time.Second)
		})
		v.absorb(P, res)
		if v.Class != "" || len(outs) != 3 {
			// crashes and the like are judged by the ordinary runs
			v.Class, v.Clause, v.Msg, v.Sig = "", "", "", ""
			return v
		}
		if comp, det := diffOutcome(outs[1], outs[0]); comp != "" {
			v.fail(P, "order-dependence", comp, cell, fmt.Sprintf("the second compilation and run of one analysis result differs from the first in %s: %s", comp, det))
			return v
		}
		ib := c14Baseline(t, p, 1)
		if ib.skip == "" && ib.po.Outcome != "crash" {
			if comp, det := diffOutcome(outs[2], ib.po); comp != "" {
				v.fail(P, "order-dependence", comp, cell, fmt.Sprintf("the interpreter, run on an analysis result that had been compiled before, differs from its baseline in %s: %s", comp, det))
			}
		}
		return v
	}
	base := c14Baseline(t, p, backend, spec.P("cancel_at_write", 0))
	if ca := spec.P("cancel_at_write", 0); ca > 0 {
		cell += fmt.Sprintf(":cancelled-in-write-%d", ca)
	}
	if base.skip != "" {
		v.fail(P, "infra", "", "", cell+": "+base.skip)
		return v
	}
	progs := []c14Prog{p}
	if n := spec.P("repeat_n", 0); n > 1 && base.po.Outcome != "crash" {
		// the same program many times in one process (state that builds up run after run)
		for len(progs) < n {
			progs = append(progs, p)
		}
	}
	if other := spec.P("repeat_after", -1); other >= 0 && other < len(c14Corpus) && c14Baseline(t, c14Corpus[other], backend).skip == "" && c14Baseline(t, c14Corpus[other], backend).po.Outcome != "crash" && base.po.Outcome != "crash" && !readsClock(p.prog) {
		// the same program again in the same process after another program
		progs = []c14Prog{p, c14Corpus[other], p}
	}
	res, outs := c14Exec(t, spec, progs, backend)
	v.absorb(P, res)
	v.MapSites = res.MapSites
	if v.Class == "infra" {
		return v
	}
	if v.Class != "" {
		crashed := c14Running
		if res.Outcome == "crash" && crashed == p.name && base.po.Outcome == "crash" && base.po.Panic == res.Sig {
			// the sorted-order baseline crashes in the same place: deterministic (and not C14's business)
			v.Class, v.Clause, v.Msg, v.Sig = "", "", "", ""
			return v
		}
		// a crash, deadlock or runaway that the sorted-order baseline does not have (or has differently)
		v.Class = "order-dependence"
		cell = crashed + "/" + []string{"vm", "interp"}[backend]
		v.Sig = P + "|order-dependence|outcome|" + cell
		what := "completes"
		if crashed == p.name && base.po.Outcome == "crash" {
			what = "crashes differently (" + base.po.Panic + ")"
		}
		v.Msg = "under a permuted map order / schedule the run ended in " + res.Outcome + " (" + clip(res.Detail) + "); the sorted-order baseline " + what + "; non-default orders at sites " + fmt.Sprint(siteList(res.MapSites))
		return v
	}
	check := func(i int, what string) bool {
		if i >= len(outs) {
			return true
		}
		if comp, det := diffOutcome(outs[i], base.po); comp != "" {
			v.fail(P, "order-dependence", comp, cell, fmt.Sprintf("%s differs from the sorted-order baseline in %s: %s; non-default orders at sites %v", what, comp, det, siteList(res.MapSites)))
			return false
		}
		return true
	}
	if n := spec.P("repeat_n", 0); n > 1 && spec.P("repeat_after", -1) < 0 {
		for i := range progs {
			if !check(i, fmt.Sprintf("repetition %d of %d in the same process", i+1, len(progs))) {
				break
			}
		}
		return v
	}
	if check(0, "run") && len(progs) == 3 {
		if check(2, "repetition in the same process") {
			// the program in between is judged against its own baseline
			ob := c14Baseline(t, progs[1], backend)
			if ob.skip == "" {
				cell = progs[1].name + "/" + []string{"vm", "interp"}[backend]
				base = ob
				check(1, "run")
			}
		}
	}
	return v
}

// runC14First: "results never depend on earlier runs in the same process", judged from the very first run.
// The spec is executed in a process of its own (worker mode "one"): the program is run before anything
// else has been analysed, then every targeted program is run once, then the program again. In a process
// that is not fresh the first run is just another run and nothing can be concluded (never a false alarm).
func runC14First(t *testing.T, spec RunSpec, p c14Prog, backend int) *Verdict {
	const P = "C14"
	v := &Verdict{}
	cell := p.name + "/" + []string{"vm", "interp"}[backend] + ":first-run-of-the-process"
	one := RunSpec{Property: P, Sim: c14SimParams(), Choices: &simrt.Sparse{}}
	res, outs := c14Exec(t, one, []c14Prog{p}, backend)
	v.absorb(P, res)
	if res.Outcome != "ok" || len(outs) != 1 {
		// crashes and the like are the business of the ordinary runs
		v.Class, v.Clause, v.Msg, v.Sig = "", "", "", ""
		return v
	}
	first := outs[0]
	for _, q := range c14Targeted {
		if q.name == p.name || readsClock(q.prog) {
			continue
		}
		for b := 0; b < 2; b++ {
			c14Exec(t, one, []c14Prog{q}, b)
		}
	}
	res2, outs2 := c14Exec(t, one, []c14Prog{p}, backend)
	if res2.Outcome != "ok" || len(outs2) != 1 {
		return v
	}
	if comp, det := diffOutcome(outs2[0], first); comp != "" {
		v.fail(P, "order-dependence", comp, cell, fmt.Sprintf("the first run of a fresh process and a run after %d other programs differ in %s: %s", len(c14Targeted)-1, comp, det))
	}
	return v
}

// readsClock: a program that prints the current time legitimately differs
// between two runs at different simulated instants; it is not repeated in-process.
func readsClock(p Program) bool {
	seen := map[string]bool{}
	todo := []string{p.Entry}
	for len(todo) > 0 {
		m := todo[0]
		todo = todo[1:]
		if seen[m] {
			continue
		}
		seen[m] = true
		src := p.Modules[m]
		if strings.Contains(src, "now(") {
			return true
		}
		for _, ln := range strings.Split(src, "\n") {
			ln = strings.TrimSpace(ln)
			if strings.HasPrefix(ln, "import ") {
				if i := strings.LastIndex(ln, " from "); i >= 0 {
					todo = append(todo, strings.TrimSuffix(strings.TrimSpace(ln[i+6:]), ";"))
				}
			}
		}
	}
	return false
}

func siteList(m map[string]int) []string {
	var s []string
	for k := range m {
		s = append(s, k)
	}
	sort.Strings(s)
	return s
}

// shrinkMapSites restricts non-default map orders to fewer sites (the minimal
// set is the diagnosis), then simplifies the simulator configuration.
func shrinkMapSites(spec RunSpec) []RunSpec {
	var out []RunSpec
	sites := spec.Sim.MapSites
	if sites == nil {
		return out // filled in by the runner on the first failing run (see restrictSites)
	}
	if len(sites) > 1 {
		half := len(sites) / 2
		for _, sub := range [][]string{sites[:half], sites[half:]} {
			c := spec.clone()
			c.Sim.MapSites = append([]string{}, sub...)
			out = append(out, c)
		}
		for i := range sites {
			c := spec.clone()
			c.Sim.MapSites = append(append([]string{}, sites[:i]...), sites[i+1:]...)
			out = append(out, c)
		}
	}
	if spec.P("repeat_after", -1) >= 0 {
		c := spec.clone()
		delete(c.Params, "repeat_after")
		out = append(out, c)
	}
	return out
}

func planC14(t *testing.T, tier string, seed uint64) ([]RunSpec, error) {
	loadCorpus()
	var plan []RunSpec
	// every targeted program once as the first thing a process does (executed by the supervisor in
	// processes of their own; see runC14First)
	var own []RunSpec
	for pi, p := range c14Targeted {
		if readsClock(p.prog) {
			continue
		}
		for backend := 0; backend < 2; backend++ {
			own = append(own, RunSpec{Property: "C14", Workload: "c14/" + p.name + "/" + []string{"vm", "interp"}[backend] + "/first-in-process", Params: map[string]int{"prog": pi, "backend": backend, "first_in_process": 1}, Sim: c14SimParams(), Choices: &simrt.Sparse{}})
		}
	}
	ownProcessSpecs["C14"] = own
	seeds := 10
	if !quick(tier) {
		seeds = 2500
	}
	idx := 0
	for pi, p := range c14Corpus {
		for backend := 0; backend < 2; backend++ {
			base := c14Baseline(t, p, backend)
			if base.skip != "" || base.steps > 1_500_000 || readsClock(p.prog) {
				// (a program that prints the current time depends on when it runs, by design)
				continue
			}
			n := seeds
			if base.steps > 200_000 {
				n = seeds / 4
				if n < 2 {
					n = 2
				}
			}
			for k := 0; k < n; k++ {
				s := RunSpec{Property: "C14", Workload: "c14/" + p.name + "/" + []string{"vm", "interp"}[backend], Params: map[string]int{"prog": pi, "backend": backend}}
				s.Sim = swarm(seed, idx)
				s.Sim.StepCostNs = []int64{100, 100, 2000, 50000}[k%4] // how far the core gets between two polls of the host's wait
				if k%3 != 2 {
					s.Sim.Quantum = nil // (other runs keep the swarm's instruction-level preemption of host vs core)
				}
				s.Sim.ClockJumps = k%4 == 3
				s.Sim.MapPerm = true
				s.Sim.PPerm = []float64{0.05, 0.3, 1.0}[k%3]
				if k%5 == 4 {
					for o := 1; o < len(c14Targeted); o++ {
						cand := (pi + o + k) % len(c14Targeted)
						if cb := c14Baseline(t, c14Corpus[cand], backend); cb.skip == "" && cb.po.Outcome != "crash" {
							s.Params["repeat_after"] = cand
							break
						}
					}
				}
				s.Seed = runSeed(seed, idx)
				idx++
				plan = append(plan, s)
			}
			if backend == 0 && pi < len(c14Targeted) && !readsClock(p.prog) {
				s := RunSpec{Property: "C14", Workload: "c14/" + p.name + "/one-analysis-used-three-times", Params: map[string]int{"prog": pi, "backend": 0, "reuse_analysis": 1}}
				s.Sim = swarm(seed, idx)
				s.Sim.StepCostNs = 100
				s.Sim.Quantum = nil
				s.Sim.ClockJumps = false
				s.Seed = runSeed(seed, idx)
				idx++
				plan = append(plan, s)
			}
			if p.name == "fails-at-once" || p.name == "runtime-error-trace" || p.name == "obj-print" {
				for k := 0; k < 2; k++ {
					s := RunSpec{Property: "C14", Workload: "c14/" + p.name + "/" + []string{"vm", "interp"}[backend] + "/many-repetitions", Params: map[string]int{"prog": pi, "backend": backend, "repeat_n": []int{150, 320}[k]}}
					s.Sim = swarm(seed, idx)
					s.Sim.StepCostNs = 100
					s.Sim.Quantum = nil
					s.Sim.ClockJumps = false
					s.Sim.MapPerm = k == 1
					s.Sim.PPerm = 0.2
					s.Seed = runSeed(seed, idx)
					idx++
					plan = append(plan, s)
				}
			}
			// the host cancels from inside a host call the program makes: how far the single-threaded
			// program still gets must not depend on the schedule of anything else
			if p.name == "print-loop-with-work" || p.name == "iterate-left-early" || p.name == "long-output-then-throw" {
				for k := 0; k < n; k++ {
					ca := []int{1, 2, 7, 30}[k%4]
					if cb := c14Baseline(t, p, backend, ca); cb.skip != "" {
						continue
					}
					s := RunSpec{Property: "C14", Workload: "c14/" + p.name + "/" + []string{"vm", "interp"}[backend] + "/cancel-in-host-call", Params: map[string]int{"prog": pi, "backend": backend, "cancel_at_write": ca}}
					s.Sim = swarm(seed, idx)
					s.Sim.StepCostNs = []int64{100, 2000, 50000}[k%3]
					s.Sim.MapPerm = k%2 == 0
					s.Sim.PPerm = 0.3
					s.Seed = runSeed(seed, idx)
					idx++
					plan = append(plan, s)
				}
			}
		}
	}
	return plan, nil
}
