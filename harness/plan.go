package harness

import (
	"fmt"
	"testing"

	"verif.local/simrt"
)

// Plan is the deterministic list of runs of one (property, tier, seed). Every
// worker computes the same plan and executes its share.
func Plan(t *testing.T, property, tier string, seed uint64) ([]RunSpec, error) {
	p, ok := planners[property]
	if !ok {
		return nil, fmt.Errorf("no planner for %s", property)
	}
	return p(t, tier, seed)
}

var planners = map[string]func(t *testing.T, tier string, seed uint64) ([]RunSpec, error){}

// swarm derives the simulator configuration of one run from (seed, index):
// many short, diverse runs.
func swarm(seed uint64, idx int) SimParams {
	r := simrt.NewRng(simrt.Mix(seed, uint64(idx), 0x5157a))
	sp := SimParams{}
	sp.StepCostNs = []int64{100, 1000, 1000, 10000, 100000}[r.Intn(5)]
	switch r.Intn(5) {
	case 0, 1: // sync points only
	case 2:
		sp.Quantum = []int64{8}
	case 3:
		sp.Quantum = []int64{8, 64, 512}
	case 4:
		sp.Quantum = []int64{3, 17, 130}
	}
	sp.PQuantum = []float64{0.02, 0.1, 0.4}[r.Intn(3)]
	sp.PSched = []float64{0.01, 0.05, 0.2, 0.5}[r.Intn(4)]
	sp.ClockJumps = r.Intn(3) == 0
	sp.POther = 0.1
	return sp
}

// withPCT turns a swarm member into a priority-based schedule search (simrt.PCTSource). Strict priorities
// starve a task that spins on another task's progress for fairK decisions per hand-over, so PCT is only
// used for workloads whose tasks block (locks, channels, sleeps) rather than spin.
func withPCT(sp SimParams, seed uint64, idx int) SimParams {
	r := simrt.NewRng(simrt.Mix(seed, uint64(idx), 0x9c7))
	sp.PCTDepth = 1 + r.Intn(3)
	sp.PCTHorizon = []int{30, 300, 3000}[r.Intn(3)]
	sp.ClockJumps = false
	return sp
}

func runSeed(seed uint64, idx int) uint64 { return simrt.Mix(seed, uint64(idx), 0xabcdef) }

// sweep generates every single-deviation run of a cell: the default schedule
// (all choices 0) except one decision i set to each alternative value. A
// defect that needs exactly one preemption inside a narrow window is found in
// at most (#decisions x #alternatives) runs. maxRuns caps the cell.
func sweep(t *testing.T, base RunSpec, maxRuns int, tags map[string]bool) []RunSpec {
	def := base.clone()
	def.Choices = &simrt.Sparse{}
	v := Execute(t, def)
	out := []RunSpec{def}
	if v.Class == "infra" {
		return out
	}
	type alt struct{ i, v int }
	var alts []alt
	// reconstruct n per choice from a fresh default run's recorded choices
	nsl := v.Ns
	for i := range v.Choices {
		if tags != nil && !tags[v.Tags[i]] {
			continue
		}
		n := 2
		if i < len(nsl) {
			n = nsl[i]
		}
		for a := 1; a < n; a++ {
			alts = append(alts, alt{i, a})
		}
	}
	stride := 1
	if maxRuns > 0 && len(alts) > maxRuns {
		stride = (len(alts) + maxRuns - 1) / maxRuns
	}
	for k := 0; k < len(alts); k += stride {
		c := base.clone()
		c.Choices = &simrt.Sparse{Len: alts[k].i + 1, NZ: [][2]int{{alts[k].i, alts[k].v}}}
		out = append(out, c)
	}
	return out
}

func quick(tier string) bool { return tier != "thorough" }

// sweep2 samples runs with two deviations from the default schedule (the second
// index refers to the vector of the run that already contains the first).
func sweep2(t *testing.T, base RunSpec, n int, seed uint64) []RunSpec {
	def := base.clone()
	def.Choices = &simrt.Sparse{}
	v := Execute(t, def)
	var out []RunSpec
	if v.Class == "infra" || len(v.Choices) < 2 {
		return out
	}
	r := simrt.NewRng(seed)
	for k := 0; k < n; k++ {
		i := r.Intn(len(v.Choices))
		j := i + 1 + r.Intn(len(v.Choices)-i)
		vi := 1 + r.Intn(maxInt(1, v.Ns[i]-1))
		vj := 1 + r.Intn(3)
		c := base.clone()
		c.Choices = &simrt.Sparse{Len: j + 1, NZ: [][2]int{{i, vi}, {j, vj}}}
		out = append(out, c)
	}
	return out
}

func maxInt(a, b int) int {
	if a > b {
		return a
	}
	return b
}
