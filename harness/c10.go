package harness

// C10 — cancellation always stops execution promptly.
//
// Fault = the host cancels at the k-th poll of the context, counted over all
// cores and builtins (the property's quantifier, verbatim), or at a simulated
// instant (deadline; lands inside sleeps).

import (
	"fmt"
	"strconv"
	"strings"
	"testing"
	"time"

	hms "github.com/smarthome-go/homescript/v3/homescript"
	ivalue "github.com/smarthome-go/homescript/v3/homescript/interpreter/value"
	"github.com/smarthome-go/homescript/v3/homescript/runtime"
	"verif.local/simrt"
)

func init() {
	runners["C10"] = runC10
	planners["C10"] = planC10
	shrinkers["C10"] = func(s RunSpec) []RunSpec {
		return genericShrink(s, map[string]int{"n": 1}, map[string]int{"cancel_at": 1, "deadline_us": 1})
	}
}

type c10Workload struct {
	name    string
	src     string
	endless bool // never completes on its own
	vmOnly  bool
	interpOnly bool // only meaningful for the interpreter
	killGrace  bool // defines an `event fn kill`: the interpreter grants it 10 s after termination, by design
	fixedN    int  // if > 0 the only value of N used (tree workloads grow exponentially with N)
	genProg   bool // a random program from gen.go; Params["n"] is the generator seed
	generated bool // one of the generated loop x body x wrapper workloads (fewer cancellation points each)
	// check validates the lines printed up to the stop: nothing may have run
	// after it, in particular no catch block may have caught the termination.
	check func(lines []string, n int) string
}

func consecutive(prefix string) func([]string, int) string {
	return func(lines []string, _ int) string {
		for i, l := range lines {
			if l != prefix+" "+strconv.Itoa(i) {
				return fmt.Sprintf("line %d is %q, expected %q", i, l, prefix+" "+strconv.Itoa(i))
			}
		}
		return ""
	}
}

func noOutput(lines []string, _ int) string {
	if len(lines) > 0 {
		return fmt.Sprintf("unexpected output %q (a handler ran after the stop?)", lines[0])
	}
	return ""
}

// perWorker: every worker's lines "<tag> <id> <i>" count up by one from 0.
func perWorker(lines []string, _ int) string {
	next := map[string]int{}
	for _, l := range lines {
		f := strings.Fields(l)
		if len(f) == 2 && f[1] == "done" || l == "main done" {
			continue
		}
		if len(f) != 3 {
			return fmt.Sprintf("unexpected line %q", l)
		}
		key := f[0] + " " + f[1]
		i, err := strconv.Atoi(f[2])
		if err != nil || i != next[key] {
			return fmt.Sprintf("line %q: expected counter %d", l, next[key])
		}
		next[key]++
	}
	return ""
}

var c10Workloads = []c10Workload{
	{name: "loop-empty", endless: true, check: noOutput, src: `fn main() { loop {} }`},
	{name: "while-true", endless: true, check: noOutput, src: `fn main() { let x = 0; while true { x = x + 1; } }`},
	{name: "calls-deep", endless: true, check: noOutput, src: `
fn c(x: int) -> int { x + 1 }
fn b(x: int) -> int { c(x) + 1 }
fn a(x: int) -> int { b(x) + 1 }
fn main() { let n = 0; loop { n = a(n); } }`},
	{name: "throw-catch-loop", endless: true, check: noOutput, src: `
fn main() { let n = 0; loop { try { throw("x"); } catch e { n = n + 1; } } }`},
	// wave 14: the exception leaves a callee frame on every turn (the unwinding path of Core.Run differs from the same-frame path)
	{name: "throw-in-callee-catch-loop", endless: true, check: noOutput, src: `
fn fail() { throw("nope"); }
fn main() { loop { try { fail(); } catch e {} } }`},
	{name: "throw-in-callee-catch-while", endless: true, check: noOutput, src: `
fn fail(n: int) -> int { if n >= 0 { throw("nope"); } n }
fn main() { let n = 0; while true { try { n = fail(n); } catch e { n = n + 1; } } }`},
	{name: "loop-in-try", endless: true, check: noOutput, src: `
fn main() { try { loop { let a = 1; } } catch e { println("caught"); } println("after"); }`},
	{name: "loop-in-catch", endless: true, check: noOutput, src: `
fn main() { let n = 0; try { try { throw("x"); } catch e { loop { n = n + 1; } } } catch e2 { println("caught outer"); } println("after"); }`},
	{name: "sleep-loop", endless: true, check: consecutive("s"), src: `
fn main() { let i = 0; loop { println("s", i); i = i + 1; time.sleep(0.05); } }`},
	{name: "sleep-long", endless: false, check: noOutput, src: `
fn main() { try { time.sleep(30.0); } catch e { println("caught"); } println("after"); }`},
	{name: "sleep-years", endless: true, check: noOutput, src: `
fn main() { time.sleep(1000000000.0); println("woke"); }`},
	{name: "sleep-hours-in-callee-loop", endless: true, check: noOutput, src: `
fn nap() { time.sleep(86400.0); }
fn main() { loop { nap(); } }`},
	{name: "spawn-sleep-years", endless: true, vmOnly: true, check: noOutput, src: `
fn w(id: int) { time.sleep(500000000.0 + 1.0); println("w woke", id); }
fn main() { for i in 0..N { spawn w(i); } time.sleep(700000000.0); println("main woke"); }`},
	{name: "spawn-loop-with-list-arguments", endless: true, vmOnly: true, fixedN: 1, check: nil, src: `
fn worker(l: [int], o: { n: int }) { let s = o.n; for x in l { s = s + x; } }
fn main() {
    let l = [1, 2, 3];
    let o = new { n: 4 };
    loop { spawn worker(l, o); time.sleep(0.001); }
}`},
	{name: "huge-range-left-by-break", endless: true, check: noOutput, src: `
fn main() {
    for i in 0..4000000000000 { if i == 5 { break; } }
    loop { let z = 0; }
}`},
	{name: "huge-range-left-by-return", endless: true, check: noOutput, src: `
fn first_over(n: int) -> int {
    for i in 0..4000000000000 { if i > n { return i; } }
    0
}
fn main() {
    let f = first_over(3);
    loop { let z = f; }
}`},
	{name: "imports-then-loop", endless: true, check: noOutput, src: `import { lookup, width } from tables;
fn main() {
    let n = lookup(2) + width;
    loop { n = (n + 1) % 1000; }
}
//// module tables
let table = [10, 20, 30, 40];
let scale = 3;
pub let width = 7;
pub fn lookup(i: int) -> int { table[i] * scale }
fn main() {}
`},
	{name: "imports-chain-then-finish", endless: false, check: nil, src: `import { fa } from ta;
fn main() { println("v", fa()); }
//// module ta
import { fb } from tb;
let ka = [1, 2, 3];
pub fn fa() -> int { ka[1] + fb() }
fn main() {}
//// module tb
let kb = new { v: 40 };
pub fn fb() -> int { kb.v }
fn main() {}
`},
	{name: "string-builtins-edge-arguments", endless: false, check: nil, src: `
fn main() {
    println("smarthome".split("").len(), "a,b".split(",").len(), "".split(",").len(), "".split("").len());
    println("abc".replace("b", "").len(), "abc".repeat(0).len(), "abc".contains(""), "".contains(""));
    let l: [int] = [];
    l.sort();
    println(l.len(), l.contains(1));
    let e: [str] = [];
    println(e.join(","), ["a"].join(""));
}`},
	{name: "pow-huge-exponent", endless: false, check: nil, src: `
fn main() {
    let b = 3;
    let e = 3600000000000000000;
    let p = b ** e;
    println("pow done", p > 0);
    let q = 2;
    q **= 62;
    println("q", q);
}`},
	{name: "list-concat-with-itself", endless: false, check: nil, src: `
fn main() {
    let l = [1, 2];
    l.concat(l);
    println("len", l.len());
    let o = new { items: [1] };
    o.items.concat(o.items);
    println("items", o.items.len());
}`},
	{name: "sleep-in-nested-try-last", endless: false, check: noOutput, src: `
fn work() { try { time.sleep(3.0); } catch inner { } }
fn main() { try { work(); } catch e { } }`},
	{name: "for-print", endless: true, check: consecutive("i"), src: `
fn main() { for i in 0..1000000 { println("i", i); } }`},
	{name: "finite", endless: false, check: consecutive("f"), src: `
fn main() { let x = 0; for i in 0..12 { x = x + i; println("f", i); } }`},
	{name: "finite-throw", endless: false, check: consecutive("f"), src: `
fn main() { for i in 0..6 { println("f", i); } throw("end"); }`},
	{name: "finite-caught", endless: false, check: nil, src: `
fn main() { for i in 0..6 { try { if i % 2 == 0 { throw("even"); } println("odd"); } catch e { println(e.message); } } }`},
	{name: "spawn-loopers", endless: true, vmOnly: true, check: perWorker, src: `
let g = 0;
fn w(id: int) { loop { g = g + 1; } }
fn main() { for i in 0..N { spawn w(i); } println("main done"); }`},
	{name: "spawn-sleepers", endless: true, vmOnly: true, check: perWorker, src: `
fn w(id: int) { let i = 0; loop { println("w", id, i); i = i + 1; time.sleep(0.02); } }
fn main() { for i in 0..N { spawn w(i); } time.sleep(0.05); println("main done"); }`},
	{name: "spawn-finishers", endless: false, vmOnly: true, check: perWorker, src: `
fn w(id: int) { for i in 0..4 { println("w", id, i); } }
fn main() { for i in 0..N { spawn w(i); } let c = 0; while c < 200 { c = c + 1; } println("main done"); }`},
	{name: "spawn-try", endless: true, vmOnly: true, check: noOutput, src: `
fn w(id: int) { try { loop { let a = 1; } } catch e { println("caught", id); } }
fn main() { for i in 0..N { spawn w(i); } try { time.sleep(20.0); } catch e { println("caught main"); } }`},
	{name: "kill-event-loops", endless: true, interpOnly: true, killGrace: true, check: noOutput, src: `
let n = 0;
event fn kill() { loop { n = n + 1; } }
fn main() { loop { n = n + 1; } }`},
	{name: "recursion-fanout", endless: true, check: noOutput, src: `
fn fib(n: int) -> int { if n < 2 { n } else { fib(n - 1) + fib(n - 2) } }
fn main() { println(fib(70)); }`},
	{name: "recursion-fanout-in-try", endless: true, check: noOutput, src: `
fn walk(n: int) -> int { if n == 0 { 1 } else { walk(n - 1) + walk(n - 1) + walk(n - 1) } }
fn main() { try { println(walk(50)); } catch e { println("caught"); } }`},
	{name: "spawn-recursion-fanout", endless: true, vmOnly: true, check: noOutput, src: `
fn fib(n: int) -> int { if n < 2 { n } else { fib(n - 1) + fib(n - 2) } }
fn w(id: int) { println(fib(70)); }
fn main() { for i in 0..N { spawn w(i); } }`},
	{name: "spawn-tree", fixedN: 3, endless: true, vmOnly: true, generated: true, check: noOutput, src: `
fn node(d: int) {
    if d > 0 { spawn node(d - 1); spawn node(d - 1); }
    loop { time.sleep(0.01); }
}
fn main() { node(N + 4); }`},
	{name: "spawn-tree-waves", fixedN: 3, endless: false, vmOnly: true, generated: true, check: noOutput, src: `
fn node(depth: int) {
    if depth < N + 4 {
        time.sleep(0.02);
        spawn node(depth + 1);
        spawn node(depth + 1);
    } else {
        time.sleep(1.0);
    }
}
fn main() { node(0); }`},
	{name: "spawn-tree-busy", fixedN: 3, endless: true, vmOnly: true, generated: true, check: noOutput, src: `
let g = 0;
fn node(d: int) {
    if d > 0 { spawn node(d - 1); spawn node(d - 1); spawn node(d - 1); }
    loop { g = g + 1; }
}
fn main() { node(N + 2); }`},
	{name: "gen-prog", endless: true, genProg: true, generated: true, check: noOutput, src: "GEN"},
	{name: "spawn-late", endless: true, vmOnly: true, check: perWorker, src: `
fn w(id: int) { let i = 0; loop { println("w", id, i); i = i + 1; time.sleep(0.01); } }
fn main() { for i in 0..N { time.sleep(0.013); spawn w(i); } loop { let z = 0; } }`},
}

// Generated endless loops: every loop form x body shape x wrapper. A backend
// that polls only in some syntactic position (statement, expression, loop
// head) misses the others.
func init() {
	loops := []struct{ name, head string }{
		{"loop", "loop"}, {"while-lit", "while true"}, {"while-ident", "while flag"}, {"while-expr", "while n >= 0"}, {"for", "for i in 0..2000000000"},
		{"for-list", "loop { for e in [1, 2, 3, 4, 5, 6, 7, 8]"}, {"for-str", "loop { for ch in \"abcdefgh\""},
	}
	bodies := []struct{ name, body string }{
		{"empty", ""}, {"let", "let a = 1;"}, {"assign", "n = n + 1;"}, {"call", "f(n);"}, {"nested-empty", "if flag { }"},
		{"match", "match n % 3 { 0 => { n = n + 1; }, _ => { n = n + 2; } }"}, {"index-chain", "let q = [[1, 2], [3, 4]][n % 2][1]; n = (n + q) % 1000;"},
		{"member-call", "let s = n.to_string().len();"}, {"nested-args", "n = f(f(f(n))) % 1000;"},
	}
	wraps := []struct{ name, pre, post string }{
		{"plain", "", ""}, {"in-try", "try {", "} catch e { println(\"caught\"); }"}, {"in-callee", "", ""}, {"in-try-last", "try {", "} catch e { }"},
	}
	for _, l := range loops {
		for _, b := range bodies {
			for _, w := range wraps {
				closeOuter := ""
				if strings.HasPrefix(l.head, "loop { for") {
					closeOuter = " }"
				}
				inner := fmt.Sprintf("%s %s { %s }%s %s", w.pre, l.head, b.body, closeOuter, w.post)
				src := "fn f(x: int) -> int { x + 1 }\n"
				if w.name == "in-callee" {
					src += fmt.Sprintf("fn spin(flag: bool) { let n = 0; %s }\nfn main() { spin(true); println(\"after\"); }", inner)
				} else if w.name == "in-try-last" {
					// an empty handler and nothing evaluated after the try: a termination that is
					// caught here is never re-raised and the run ends "normally"
					src += fmt.Sprintf("fn main() { let flag = true; let n = 0; %s }", inner)
				} else {
					src += fmt.Sprintf("fn main() { let flag = true; let n = 0; %s println(\"after\"); }", inner)
				}
				c10Workloads = append(c10Workloads, c10Workload{name: "gen-" + l.name + "-" + b.name + "-" + w.name, endless: true, check: noOutput, src: src, generated: true})
			}
		}
	}
}

func c10Source(w c10Workload, n int) string {
	if w.genProg {
		return genProgram(uint64(n), "endless", 0)
	}
	return strings.ReplaceAll(w.src, "N", strconv.Itoa(n))
}

var errGenRejected = fmt.Errorf("generated program rejected by the analyzer")

type runResult struct {
	out      outcome
	lines    []string
	polls    int64
	returned bool
	spanErr  string
	// overAtCancel: when the host cancelled, no task of the program was alive any more (VM: every core's
	// goroutine had ended) - the program "finished first"
	overAtCancel bool
}

// c10Exec runs one workload under one cancellation fault.
func c10Exec(t *testing.T, spec RunSpec, cancelAt int64, deadline time.Duration, arm bool) (*simrt.Result, *runResult, error) {
	w := c10Workloads[spec.P("w", 0)]
	backend := spec.P("backend", 0)
	prog, err := MustCompile(c09Program(c10Source(w, spec.P("n", 2))))
	if err != nil {
		if w.genProg {
			return nil, nil, errGenRejected
		}
		return nil, nil, fmt.Errorf("workload %s does not compile: %v", w.name, err)
	}
	rr := &runResult{}
	ctx := NewCtx()
	out := &Out{}
	coresStarted := false
	res := simrt.Run(t, simConfig(spec.Sim), simSource(spec), func(s *simrt.Sim) {
		ctx.OnCancel = func() {
			s.Probe("cancel-fired")
			if backend == 0 && spec.F("ctx_deadline", 0) != 2 { // (a deadline of the context itself: its timer, not this call, is the instant of the cancel)
				alive := 0
				if s.CallerIsProgram() {
					alive++ // the cancel fires inside a poll of one of the program's own tasks
				}
				for _, o := range s.Others() {
					if !o.Host && o.State != "panicked" {
						alive++
					}
				}
				if alive == 0 && coresStarted {
					rr.overAtCancel = true
					s.Probe("cancel-after-the-program-was-over-but-before-wait-returned")
				}
			}
			if ctx.CancelAt > 0 && ctx.Polls() == ctx.CancelAt {
				s.Fault("cancel-at-kth-poll")
			} else {
				s.Fault("cancel-at-simulated-instant")
			}
			if arm && w.killGrace {
				// KILL_EVENT_TIMEOUT_SECS = 10: the kill handler may run that long, not longer
				s.SetDeadline("wait-returns-after-cancel", 12*time.Second)
			} else if arm {
				s.ArmStepBound("after-cancel", stepBoundAfterStop)
				s.SetDeadline("wait-returns-after-cancel", 2*time.Second)
			}
		}
		startCanceller := func() {
			if arm {
				// (after the VM has been constructed: a context that ends while NewVM runs the
				// initialisers makes NewVM panic by design)
				switch spec.F("ctx_deadline", 0) {
				case 1:
					// the host's context also has a deadline far in the future; the host cancels explicitly
					ctx.WithDeadline(time.Hour)
				case 2:
					// the context ends through its own deadline (nobody calls cancel): that is a cancellation
					// like any other ("once the host cancels the execution context")
					if deadline > 0 {
						ctx.WithDeadline(deadline)
					}
				}
			}
			ctx.ResetPolls()
			ctx.CancelAt = cancelAt
			d, why := deadline, "deadline"
			if d == 0 && arm {
				// The k-th poll may never come (a program that stops polling): the
				// host then cancels at a simulated instant, so every run is judged.
				d, why = time.Duration(spec.Sim.StepCostNs)*4_000_000+3*time.Second, "fallback deadline"
			}
			if d > 0 {
				s.GoAux("canceller", func() {
					s.Sleep(d)
					if !ctx.Fired() {
						s.Probe("cancel-by-" + strings.Fields(why)[0])
						ctx.Fire(fmt.Sprintf("%s %v", why, d))
					}
				})
			}
		}
		if !arm { // reference run: bound the endless workloads by the simulator's own means
			s.SetDeadline("reference-run", 300*time.Second)
		}
		if backend == 0 {
			env := &vmEnv{prog: prog, out: out, ctx: ctx, exec: NewVMExec(out), limits: generousLimits}
			env.boot()
			startCanceller()
			env.vm.SpawnAsync(runtime.MainFn(), nil, nil, nil)
			coresStarted = true
			num, i := env.vm.Wait()
			rr.out = classify(num, i)
			if i != nil {
				func() {
					defer func() {
						if r := recover(); r != nil {
							rr.spanErr = fmt.Sprint(r)
						}
					}()
					_ = (*i).GetSpan()
				}()
			}
		} else {
			ctxp, _ := ctx.AsContext()
			startCanceller()
			i := hms.Run(2000, prog.an.Modules, "main", TreeExec{Out: out}, hms.TestingInterpreterScopeAdditions(), ctxp)
			rr.out = classifyTree(i)
			if i != nil {
				func() {
					defer func() {
						if r := recover(); r != nil {
							rr.spanErr = fmt.Sprint(r)
						}
					}()
					_ = (*i).GetSpan()
				}()
			}
		}
		s.ClearDeadline("wait-returns-after-cancel")
		s.ClearDeadline("reference-run")
		rr.returned = true
		rr.lines = out.Lines()
		rr.polls = ctx.Polls()
		s.Logf("host wait returned %s", rr.out.Kind)
	})
	if !rr.returned {
		rr.lines = out.Lines()
		rr.polls = ctx.Polls()
	}
	return res, rr, nil
}

func classifyTree(i *ivalue.Interrupt) outcome {
	if i == nil {
		return outcome{Kind: "completed"}
	}
	o := outcome{Msg: (*i).Message()}
	switch (*i).Kind() {
	case ivalue.TerminateInterruptKind:
		o.Kind = "terminated"
	case ivalue.FatalExceptionInterruptKind:
		o.Kind = "fatal:" + treeKind((*i).(ivalue.RuntimeErr).ErrKind)
	case ivalue.NormalExceptionInterruptKind:
		o.Kind = "exception"
	case ivalue.ExitInterruptKind:
		o.Kind = "exit"
	default:
		o.Kind = "control-flow-interrupt:" + (*i).Kind().String()
	}
	return o
}

func treeKind(k ivalue.RuntimeErrorKind) string {
	switch k {
	case ivalue.StackOverFlowErrorKind:
		return "StackOverFlow"
	case ivalue.OutOfMemoryErrorKind:
		return "OutOfMemory"
	case ivalue.ValueErrorKind:
		return "ValueError"
	case ivalue.ImportErrorKind:
		return "ImportError"
	case ivalue.HostErrorKind:
		return "HostError"
	case ivalue.JsonErrorKind:
		return "JsonError"
	case ivalue.CastErrorKind:
		return "CastError"
	case ivalue.IndexOutOfBoundsErrorKind:
		return "IndexOutOfBounds"
	case ivalue.UncaughtThrowKind:
		return "UncaughtThrow"
	}
	return fmt.Sprintf("kind%d", k)
}

// ---- reference runs (fault-free, default schedule), cached per process ----

type c10Ref struct {
	out   outcome
	lines []string
	polls int64
	simNs int64 // simulated duration of the reference run (default schedule, 1000 ns per step)
	err   string
}

var c10Refs = map[string]*c10Ref{}

func c10Reference(t *testing.T, spec RunSpec) *c10Ref {
	key := fmt.Sprintf("%d/%d/%d", spec.P("w", 0), spec.P("backend", 0), spec.P("n", 2))
	if r, ok := c10Refs[key]; ok {
		return r
	}
	w := c10Workloads[spec.P("w", 0)]
	ref := &c10Ref{}
	c10Refs[key] = ref
	if w.endless {
		ref.polls = -1
		return ref
	}
	rs := spec.clone()
	rs.Sim = SimParams{StepCostNs: 1000}
	rs.Choices = &simrt.Sparse{}
	res, rr, err := c10Exec(t, rs, 0, 0, false)
	if err != nil {
		ref.err = err.Error()
		return ref
	}
	if res.Outcome != "ok" || !rr.returned {
		ref.err = "reference run: " + res.Outcome + " " + res.Detail
		return ref
	}
	ref.out, ref.lines, ref.polls = rr.out, rr.lines, rr.polls
	ref.simNs = int64(res.SimTime)
	return ref
}

func runC10(t *testing.T, spec RunSpec) *Verdict {
	const P = "C10"
	v := &Verdict{}
	w := c10Workloads[spec.P("w", 0)]
	backend := []string{"vm", "interp"}[spec.P("backend", 0)]
	cell := w.name + "/" + backend
	ref := c10Reference(t, spec)
	if ref.err != "" {
		// A reference run that crashes or deadlocks is a defect of the fault-free
		// path; it is reported by the properties that own it (C17/C16), here the
		// cell cannot be judged.
		if strings.Contains(ref.err, "does not compile") {
			v.fail(P, "infra", "", "", ref.err)
		} else {
			// without any cancellation the wait must return the program's own outcome
			v.fail(P, refClass(ref.err), "wait-returns-without-cancel", cell+":reference", "fault-free run (no cancellation): "+ref.err)
		}
		return v
	}
	cancelAt := int64(spec.F("cancel_at", 0))
	deadline := time.Duration(spec.F("deadline_us", 0)) * time.Microsecond
	res, rr, err := c10Exec(t, spec, cancelAt, deadline, true)
	if err == errGenRejected {
		v.Probes = map[string]int{"generated-program-rejected": 1}
		return v
	}
	if err != nil {
		v.fail(P, "infra", "", "", err.Error())
		return v
	}
	v.absorb(P, res)
	v.Output = rr.lines
	v.Extra = map[string]any{"source": c10Source(w, spec.P("n", 2))}
	if v.Class != "" {
		switch v.Class {
		case "runaway":
			// culprit = backend + bound + workload (the trapped frame itself is
			// wherever the budget happened to run out, hence not stable)
			bound := res.Sig
			if i := strings.IndexByte(bound, '@'); i >= 0 {
				bound = bound[:i]
			}
			v.Sig = P + "|runaway|" + v.Clause + "|" + backend + ":" + bound + ":" + w.name
		case "deadlock":
			v.Sig = P + "|deadlock|" + v.Clause + "|" + backend + ":" + res.Sig
		}
		return v
	}
	if !rr.returned {
		v.fail(P, "infra", "", "", "host did not return and the simulator reported nothing")
		return v
	}
	// (a context that ends through its own deadline is cancelled, whoever notices it first)
	cancelled := res.Probes["cancel-fired"] > 0 || spec.F("ctx_deadline", 0) == 2 && deadline > 0
	// (7) the interrupt's span can be read
	if rr.spanErr != "" {
		v.fail(P, "host-crash", "interrupt-span", backend, "GetSpan() of the returned interrupt panicked: "+rr.spanErr)
		return v
	}
	// (3) result
	switch {
	case rr.out.Kind == "terminated":
		if !cancelled {
			v.fail(P, "wrong-result", "wait-result", cell, "terminated although the host never cancelled")
			return v
		}
		if rr.overAtCancel && !w.endless && ref.out.Kind != "terminated" {
			// "... or the program's own outcome if it finished first"
			v.fail(P, "wrong-result", "own-outcome-if-finished-first", cell, fmt.Sprintf("every core had finished when the host cancelled, but the wait reported a termination instead of the program's own outcome (%s)", ref.out.Kind))
			return v
		}
	case w.endless:
		v.fail(P, "wrong-result", "wait-result", cell+":"+rr.out.Kind, fmt.Sprintf("endless workload returned %s (%s) instead of a termination interrupt", rr.out.Kind, firstLine(rr.out.Msg)))
		return v
	default:
		// the program finished first: outcome and output equal the reference run's
		if rr.out.Kind != ref.out.Kind {
			v.fail(P, "wrong-result", "wait-result", cell+":"+rr.out.Kind, fmt.Sprintf("returned %s (%s); the fault-free run returns %s", rr.out.Kind, firstLine(rr.out.Msg), ref.out.Kind))
			return v
		}
		if w.vmOnly {
			if d := diffMultiset(multiset(rr.lines), multiset(ref.lines)); d != "" {
				v.fail(P, "wrong-result", "output-equals-reference", cell, "completed, but output differs from the fault-free run: "+d)
				return v
			}
		} else if strings.Join(rr.lines, "\n") != strings.Join(ref.lines, "\n") {
			v.fail(P, "wrong-result", "output-equals-reference", cell, fmt.Sprintf("completed, but output %q differs from the fault-free run %q", rr.lines, ref.lines))
			return v
		}
	}
	// (4) nothing ran after the stop
	if rr.out.Kind == "terminated" {
		if w.check != nil {
			if msg := w.check(rr.lines, spec.P("n", 2)); msg != "" {
				v.fail(P, "wrong-result", "output-prefix", cell, msg)
				return v
			}
		}
		if !w.endless && !w.vmOnly {
			if len(rr.lines) > len(ref.lines) || strings.Join(rr.lines, "\n") != strings.Join(ref.lines[:len(rr.lines)], "\n") {
				v.fail(P, "wrong-result", "output-prefix", cell, fmt.Sprintf("output %q is not a prefix of the fault-free output", rr.lines))
				return v
			}
		}
	}
	// (5) no core is left running or blocked behind the wait
	v.leftover(P, res)
	if v.Class == "leftover-task" {
		v.Sig = P + "|leftover-task|" + v.Clause + "|" + backend + ":" + strings.SplitN(v.Sig, "|", 4)[3]
	}
	return v
}

func planC10(t *testing.T, tier string, seed uint64) ([]RunSpec, error) {
	var plan []RunSpec
	maxK := 40
	seedsPerK := 3
	ns := []int{1, 3}
	bigK := 4
	if !quick(tier) {
		maxK = 400
		seedsPerK = 40
		ns = []int{1, 2, 3, 5, 8}
		bigK = 40
	}
	idx := 0
	for wi, w := range c10Workloads {
		for backend := 0; backend < 2; backend++ {
			if backend == 1 && w.vmOnly || backend == 0 && w.interpOnly {
				continue
			}
			nlist := []int{1}
			if w.vmOnly {
				nlist = ns
			}
			if w.fixedN > 0 {
				nlist = []int{w.fixedN}
			}
			if w.genProg {
				ng := 40
				if !quick(tier) {
					ng = 3000
				}
				nlist = nil
				for gi := 0; gi < ng; gi++ {
					nlist = append(nlist, 1+int(simrt.Mix(seed, uint64(gi), 0xc10)%1000000))
				}
			}
			for _, n := range nlist {
				base := RunSpec{Property: "C10", Workload: "c10/" + w.name + "/" + []string{"vm", "interp"}[backend], Params: map[string]int{"w": wi, "backend": backend, "n": n}}
				ref := c10Reference(t, base)
				if ref.err != "" {
					// still run one spec so that the problem is reported
					s := base.clone()
					s.Sim = SimParams{StepCostNs: 1000}
					plan = append(plan, s)
					continue
				}
				top := int64(maxK)
				if ref.polls >= 0 && ref.polls < top {
					top = ref.polls
				}
				if w.generated {
					top = 6
					if !quick(tier) {
						top = 40
					}
				}
				perK := 1
				if w.vmOnly {
					perK = seedsPerK
				}
				add := func(fault map[string]int, reps int) {
					for r := 0; r < reps; r++ {
						s := base.clone()
						s.Fault = fault
						if w.vmOnly {
							s.Sim = swarm(seed, idx)
						} else {
							s.Sim = swarm(seed, idx)
							s.Sim.Quantum = nil
						}
						s.Seed = runSeed(seed, idx)
						idx++
						plan = append(plan, s)
					}
				}
				for k := int64(1); k <= top; k++ {
					add(map[string]int{"cancel_at": int(k)}, perK)
				}
				// a seeded sample of larger k
				r := simrt.NewRng(simrt.Mix(seed, uint64(wi), uint64(backend), uint64(n)))
				nbig := bigK
				if w.generated {
					nbig = 1
				}
				for j := 0; j < nbig; j++ {
					k := int(top) + 1 + r.Intn(4000)
					if ref.polls >= 0 {
						k = int(ref.polls) + 1 + r.Intn(20) // after completion
					}
					add(map[string]int{"cancel_at": k}, 1)
				}
				// cancellation by deadline at seeded simulated instants
				for j := 0; j < nbig; j++ {
					us := 1 + r.Intn(200000)
					add(map[string]int{"deadline_us": us}, 1)
				}
				// contexts that have a deadline of their own: far away while the host cancels explicitly, or
				// as the only thing that ends the context
				for j := 0; j < nbig/2+1; j++ {
					add(map[string]int{"cancel_at": 1 + r.Intn(int(top)+3), "ctx_deadline": 1}, 1)
					add(map[string]int{"deadline_us": 1 + r.Intn(200000), "ctx_deadline": 2}, 1)
				}
				// ... and, for programs that end, around the instant at which they end under the default
				// schedule: the cancel lands just before the end, or after it but before the wait has noticed
				if !w.endless && ref.simNs > 0 {
					for _, dUs := range []int{-3000, -500, -50, 20, 300, 1000, 2500, 4000, 4900, 6000} {
						us := int(ref.simNs/1000) + dUs
						if us <= 0 {
							continue
						}
						s := base.clone()
						s.Fault = map[string]int{"deadline_us": us}
						s.Sim = SimParams{StepCostNs: 1000}
						s.Choices = &simrt.Sparse{}
						plan = append(plan, s)
					}
				}
			}
		}
	}
	return plan, nil
}
