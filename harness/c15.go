package harness

// C15 — modules are isolated and linked by name and visibility.
//
// The simulator contributes the orders in which the host and the compiler
// visit modules (map iteration orders, T1) and the host's lookup behaviour
// (fault surface). Module graphs are a workload generated from a small
// template family.

import (
	"fmt"
	"regexp"
	"sort"
	"strings"
	"testing"
	"time"

	"verif.local/simrt"
)

func init() {
	runners["C15"] = runC15
	planners["C15"] = planC15
	shrinkers["C15"] = shrinkMapSites
}

type c15Fn struct {
	name    string
	pub     bool
	global  string   // own global it prints and marks ("" = none)
	callees []string // names it calls (own or imported functions)
	wrap    int      // syntactic position of the global access: 0 function body, 1 if block, 2 loop body, 3 match arm, 4 nested block
	reads   []string // globals imported from another library module that it prints (never mutated by anybody)
}

type c15Mod struct {
	name     string
	fns      []c15Fn
	globals  []string
	pubGlob  map[string]bool
	imports  map[string][]string // from module -> items (functions or globals)
	impOrder []string
	events    []string // `event fn` definitions (never importable)
	typeLast  []string // modules from which main imports the type again, alone, in a statement after all others
	typeFirst []string // modules from which main imports only the type first, in a separate import statement placed before all others
	factories []string // globals for which a pub function mk_<global>() returns a closure that marks and returns it
	hasApply  bool     // pub fn apply_<mod>(cb: fn() -> str) -> str { cb() }
	boom      string   // "-" or the global that pub fn boom<mod>() prints and marks before it throws ("" = no such function)
	first     string   // verbatim source placed before everything else
	extra     string   // verbatim source appended after the imports
	hasGuard  bool     // pub fn guard<mod>(cb: fn() -> null): calls cb inside try, catches what it throws, then uses its own global and function
}

type c15Graph struct {
	mods     []*c15Mod // mods[0] is main
	illegal  string    // "" or the one way in which the graph is illegal
	overlap  string    // none | fn | global | both
	mainBody []string  // statements of main.main (calls, prints)
	offenders []string // illegal kind 12: the modules that each contain the illegal import
}

func (g *c15Graph) mod(name string) *c15Mod {
	for _, m := range g.mods {
		if m.name == name {
			return m
		}
	}
	return nil
}

func (m *c15Mod) fn(name string) *c15Fn {
	for i := range m.fns {
		if m.fns[i].name == name {
			return &m.fns[i]
		}
	}
	return nil
}

func (m *c15Mod) hasGlobal(n string) bool {
	for _, g := range m.globals {
		if g == n {
			return true
		}
	}
	return false
}

func (m *c15Mod) imported(n string) (string, bool) {
	for _, from := range m.impOrder {
		for _, it := range m.imports[from] {
			if it == n {
				return from, true
			}
		}
	}
	return "", false
}

func (m *c15Mod) addImport(from, item string) {
	if m.imports == nil {
		m.imports = map[string][]string{}
	}
	if _, ok := m.imports[from]; !ok {
		m.impOrder = append(m.impOrder, from)
	}
	m.imports[from] = append(m.imports[from], item)
}

var c15FnNames = []string{"f", "g", "h"}
var c15GlobNames = []string{"x", "y", "slots"}

// c15IsList: the global `slots` is a list with the same literal initialiser in every module that has it
// and is marked in place (push); the others are strings marked by reassignment.
func c15IsList(gn string) bool { return gn == "slots" }

func c15Init(mod, gn string) string {
	if c15IsList(gn) {
		return "[0, 0, 0]"
	}
	return mod + "." + gn
}

func c15InitSrc(mod, gn string) string {
	if c15IsList(gn) {
		return "[0, 0, 0]"
	}
	return "\"" + mod + "." + gn + "\""
}

func c15MarkSrc(gn string) string {
	if c15IsList(gn) {
		return gn + ".push(1);"
	}
	return gn + " = " + gn + " + \"+\";"
}

func c15Mark(v string) string {
	if strings.HasPrefix(v, "[") {
		return strings.TrimSuffix(v, "]") + ", 1]"
	}
	return v + "+"
}

// c15Chain: main -> ma -> mb -> mc (-> md): every module is reachable from the entry module
// only through the previous one, all define a global x and the functions overlap in nothing else.
func c15Chain(seed int) *c15Graph {
	r := simrt.NewRng(simrt.Mix(uint64(seed), 0xc4a1))
	g := &c15Graph{overlap: "global"}
	main := &c15Mod{name: "main", pubGlob: map[string]bool{}, globals: []string{"x"}}
	g.mods = append(g.mods, main)
	n := 3 + r.Intn(2)
	names := []string{"ma", "mb", "mc", "md"}
	for i := 0; i < n; i++ {
		m := &c15Mod{name: names[i], pubGlob: map[string]bool{}}
		if i == n-1 || r.Intn(3) > 0 {
			m.globals = []string{"x"}
		}
		f := c15Fn{name: fmt.Sprintf("c%d", i), pub: true, wrap: r.Intn(5)}
		if len(m.globals) > 0 {
			f.global = "x"
		}
		if i < n-1 {
			f.callees = []string{fmt.Sprintf("c%d", i+1)}
			m.addImport(names[i+1], fmt.Sprintf("c%d", i+1))
		}
		m.fns = []c15Fn{f}
		g.mods = append(g.mods, m)
	}
	main.addImport("ma", "c0")
	g.mainBody = []string{"call:c0", "call:c0", "print-own:x"}
	return g
}

// c15Underscore: module and item names whose concatenations coincide (module a item b_f, module a_b item f).
func c15Underscore(seed int) *c15Graph {
	r := simrt.NewRng(simrt.Mix(uint64(seed), 0x5c0e))
	g := &c15Graph{overlap: "none"}
	main := &c15Mod{name: "main", pubGlob: map[string]bool{}}
	a := &c15Mod{name: "a", pubGlob: map[string]bool{}, globals: []string{"b_x"}}
	ab := &c15Mod{name: "a_b", pubGlob: map[string]bool{}, globals: []string{"x"}}
	a.fns = []c15Fn{{name: "b_f", pub: true, global: "b_x", wrap: r.Intn(5)}}
	ab.fns = []c15Fn{{name: "f", pub: true, global: "x", wrap: r.Intn(5)}}
	g.mods = []*c15Mod{main, a, ab}
	if r.Intn(2) == 0 {
		main.addImport("a", "b_f")
		main.addImport("a_b", "f")
	} else {
		main.addImport("a_b", "f")
		main.addImport("a", "b_f")
	}
	g.mainBody = []string{"call:b_f", "call:f", "call:b_f", "call:f"}
	return g
}

// c15Gen builds a legal graph from a seed, then (optionally) breaks it in exactly one way.
func c15Gen(seed int, illegal int) *c15Graph {
	if illegal == 100 {
		return c15Chain(seed)
	}
	if illegal == 101 {
		return c15Underscore(seed)
	}
	r := simrt.NewRng(simrt.Mix(uint64(seed), 0xc15))
	g := &c15Graph{}
	main := &c15Mod{name: "main", pubGlob: map[string]bool{}}
	g.mods = append(g.mods, main)
	nlib := 1 + r.Intn(3)
	for i := 0; i < nlib; i++ {
		m := &c15Mod{name: []string{"ma", "mb", "mc"}[i], pubGlob: map[string]bool{}}
		for _, gn := range c15GlobNames {
			if r.Intn(10) < 7 {
				m.globals = append(m.globals, gn)
				m.pubGlob[gn] = r.Intn(10) < 4
			}
		}
		for _, fnn := range c15FnNames {
			if r.Intn(10) < 6 {
				f := c15Fn{name: fnn, pub: r.Intn(10) < 6, wrap: r.Intn(5)}
				if len(m.globals) > 0 {
					f.global = m.globals[r.Intn(len(m.globals))]
				}
				m.fns = append(m.fns, f)
			}
		}
		hasPub := false
		for _, f := range m.fns {
			hasPub = hasPub || f.pub
		}
		if !hasPub {
			if f := m.fn("f"); f != nil {
				f.pub = true
			} else {
				f := c15Fn{name: "f", pub: true}
				if len(m.globals) > 0 {
					f.global = m.globals[0]
				}
				m.fns = append([]c15Fn{f}, m.fns...)
			}
		}
		// own-module calls: a function may call a later function of its module
		for a := range m.fns {
			for b := a + 1; b < len(m.fns); b++ {
				if r.Intn(3) == 0 {
					m.fns[a].callees = append(m.fns[a].callees, m.fns[b].name)
				}
			}
		}
		g.mods = append(g.mods, m)
	}
	// library-to-library imports (acyclic: i imports from j > i)
	for i := 1; i < len(g.mods); i++ {
		for j := i + 1; j < len(g.mods); j++ {
			for _, f := range g.mods[j].fns {
				if !f.pub || g.mods[i].fn(f.name) != nil || r.Intn(2) == 0 {
					continue
				}
				if _, dup := g.mods[i].imported(f.name); dup {
					continue
				}
				g.mods[i].addImport(g.mods[j].name, f.name)
				if len(g.mods[i].fns) > 0 {
					k := r.Intn(len(g.mods[i].fns))
					g.mods[i].fns[k].callees = append(g.mods[i].fns[k].callees, f.name)
				}
			}
		}
	}
	// library-to-library imports of pub globals that no function mutates
	for i := 1; i < len(g.mods); i++ {
		for j := i + 1; j < len(g.mods); j++ {
			for _, gn := range g.mods[j].globals {
				if !g.mods[j].pubGlob[gn] || g.mods[i].hasGlobal(gn) || r.Intn(2) == 0 || len(g.mods[i].fns) == 0 {
					continue
				}
				mutated := false
				for _, f := range g.mods[j].fns {
					mutated = mutated || f.global == gn
				}
				if _, dup := g.mods[i].imported(gn); dup || mutated {
					continue
				}
				g.mods[i].addImport(g.mods[j].name, gn)
				k := r.Intn(len(g.mods[i].fns))
				g.mods[i].fns[k].reads = append(g.mods[i].fns[k].reads, gn)
			}
		}
	}
	// main: own globals and functions (overlapping names on purpose), imports
	for _, gn := range c15GlobNames {
		if r.Intn(2) == 0 {
			main.globals = append(main.globals, gn)
		}
	}
	for i := 1; i < len(g.mods); i++ {
		for _, f := range g.mods[i].fns {
			if f.pub && r.Intn(10) < 8 {
				if _, dup := main.imported(f.name); !dup && main.fn(f.name) == nil {
					main.addImport(g.mods[i].name, f.name)
				}
			}
		}
		for _, gn := range g.mods[i].globals {
			if g.mods[i].pubGlob[gn] && !main.hasGlobal(gn) && r.Intn(2) == 0 {
				if _, dup := main.imported(gn); !dup {
					main.addImport(g.mods[i].name, gn)
				}
			}
		}
	}
	for _, fnn := range c15FnNames {
		if _, imp := main.imported(fnn); !imp && r.Intn(3) == 0 {
			f := c15Fn{name: fnn, wrap: r.Intn(5)}
			if len(main.globals) > 0 {
				f.global = main.globals[r.Intn(len(main.globals))]
			}
			main.fns = append(main.fns, f)
		}
	}
	var late []string // statements of main that come after the imported globals have been printed
	// a type-only import that reaches a module before any import of its functions or globals
	if r.Intn(3) == 0 {
		main.typeFirst = append(main.typeFirst, g.mods[1+r.Intn(nlib)].name)
	}
	// a type-only import statement that comes after the value imports of the same module
	if r.Intn(3) == 0 && len(main.impOrder) > 0 {
		tm := main.impOrder[r.Intn(len(main.impOrder))]
		dup := false
		for _, x := range main.typeFirst {
			dup = dup || x == tm
		}
		if !dup {
			main.typeLast = append(main.typeLast, tm)
		}
	}
	// closures crossing a module boundary: a closure made in a library and called by main must use
	// the library's globals; a closure made in main and called by a library must use main's
	for i := 1; i < len(g.mods); i++ {
		m := g.mods[i]
		if len(m.globals) > 0 && r.Intn(3) == 0 && !c15IsList(m.globals[0]) {
			gn := m.globals[0]
			if len(m.globals) > 1 && !c15IsList(m.globals[1]) && r.Intn(2) == 0 {
				gn = m.globals[1]
			}
			name := "mk" + gn + m.name
			// a global that another module imports is never mutated (the two backends differ in
			// whether an imported global is a copy or a reference; that is not this property's business)
			readElsewhere := false
			for _, o := range g.mods {
				if from, ok := o.imported(gn); ok && from == m.name {
					readElsewhere = true
				}
			}
			if _, dup := main.imported(name); !dup && !readElsewhere {
				m.factories = append(m.factories, gn)
				main.addImport(m.name, name)
				late = append(late, "closure:"+m.name+":"+gn)
			}
		}
		if len(main.globals) > 0 && !c15IsList(main.globals[0]) && r.Intn(4) == 0 {
			m.hasApply = true
			main.addImport(m.name, "apply"+m.name)
			late = append(late, "callback:"+m.name+":"+main.globals[0])
		}
	}
	// exceptions crossing a module boundary: an imported function that throws is caught by the importer,
	// a callback of the importer that throws is caught by the library; whoever catches keeps running
	// against its own module's globals and functions
	var mid []string // statements of main between the two rounds of calls
	for i := 1; i < len(g.mods); i++ {
		m := g.mods[i]
		if r.Intn(3) == 0 {
			m.boom = "-"
			if len(m.globals) > 0 {
				m.boom = m.globals[r.Intn(len(m.globals))]
				for _, o := range g.mods {
					if from, ok := o.imported(m.boom); ok && from == m.name {
						m.boom = "-" // never mutate a global that somebody imports
					}
				}
			}
			main.addImport(m.name, "boom"+m.name)
			mid = append(mid, "catch:"+m.name)
		}
		if r.Intn(4) == 0 {
			m.hasGuard = true
			main.addImport(m.name, "guard"+m.name)
			mid = append(mid, "guard:"+m.name)
		}
	}
	if len(main.impOrder) == 0 {
		lib := g.mods[1]
		for _, f := range lib.fns {
			if f.pub {
				main.addImport(lib.name, f.name)
				break
			}
		}
	}
	// main body: imported globals first (initial values), then every callable twice, then own globals
	for _, from := range main.impOrder {
		for _, it := range main.imports[from] {
			if g.mod(from).hasGlobal(it) {
				g.mainBody = append(g.mainBody, "print-import:"+it)
			}
		}
	}
	for round := 0; round < 2; round++ {
		for _, from := range main.impOrder {
			for _, it := range main.imports[from] {
				if g.mod(from).fn(it) != nil {
					g.mainBody = append(g.mainBody, "call:"+it)
				}
			}
		}
		for _, f := range main.fns {
			g.mainBody = append(g.mainBody, "call:"+f.name)
		}
		if round == 0 {
			g.mainBody = append(g.mainBody, mid...)
		}
	}
	// imported functions used as values, and locals that shadow nothing they should
	for _, from := range main.impOrder {
		for _, it := range main.imports[from] {
			if g.mod(from).fn(it) != nil && r.Intn(3) == 0 {
				late = append(late, "fnvalue:"+it)
			}
		}
	}
	g.mainBody = append(g.mainBody, late...)
	for _, gn := range main.globals {
		g.mainBody = append(g.mainBody, "print-own:"+gn)
	}
	// a module without any global whose pub function uses a value imported from a builtin module
	// (its initialiser has no state to set up, only that import to bind)
	if r.Intn(3) == 0 {
		mq := &c15Mod{name: "mq", pubGlob: map[string]bool{}}
		mq.extra = "import { assert_eq } from testing;\npub fn chkmq() { assert_eq(2, 2); println(\"mq.chk\"); }\n"
		g.mods = append(g.mods, mq)
		main.addImport("mq", "chkmq")
		g.mainBody = append(g.mainBody, "raw:chkmq:mq.chk")
	}
	// a module that defines a private function named like a builtin of the host (it never calls or exports
	// it), and another module whose function calls that builtin: the builtin is what runs
	if len(g.mods) >= 3 && r.Intn(3) == 0 {
		owner, user := g.mods[1], g.mods[2]
		owner.extra += fmt.Sprintf("fn debug(a: str) { println(\"%s has its own debug\", a); }\n", owner.name)
		user.extra += fmt.Sprintf("pub fn dbg%s() { debug(\"from %s\"); }\n", user.name, user.name)
		main.addImport(user.name, "dbg"+user.name)
		g.mainBody = append(g.mainBody, "raw:dbg"+user.name+":DEBUG: from "+user.name)
	}
	// a library function whose only use anywhere is as the target of a spawn
	if r.Intn(4) == 0 {
		lib := g.mods[1]
		lib.extra += fmt.Sprintf("pub fn onlyspawn%s() { println(\"%s.onlyspawn\"); }\n", lib.name, lib.name)
		main.addImport(lib.name, "onlyspawn"+lib.name)
		g.mainBody = append(g.mainBody, "rawspawn:onlyspawn"+lib.name+":"+lib.name+".onlyspawn")
	}
	// an imported function started as a thread (last statement: main prints nothing after it, and there is
	// only ever one thread, so the order of the output is fixed)
	if n := len(g.mainBody); r.Intn(4) == 0 && !(n > 0 && strings.HasPrefix(g.mainBody[n-1], "rawspawn:")) {
		var fns []string
		for _, from := range main.impOrder {
			for _, it := range main.imports[from] {
				if g.mod(from) != nil && g.mod(from).fn(it) != nil {
					fns = append(fns, it)
				}
			}
		}
		if len(fns) > 0 {
			g.mainBody = append(g.mainBody, "spawn:"+fns[r.Intn(len(fns))])
		}
	}
	// overlap class
	fnOwners, globOwners := map[string]int{}, map[string]int{}
	for _, m := range g.mods {
		for _, f := range m.fns {
			fnOwners[f.name]++
		}
		for _, gn := range m.globals {
			globOwners[gn]++
		}
	}
	fo, gl := false, false
	for _, c := range fnOwners {
		fo = fo || c > 1
	}
	for _, c := range globOwners {
		gl = gl || c > 1
	}
	switch {
	case fo && gl:
		g.overlap = "both"
	case fo:
		g.overlap = "fn"
	case gl:
		g.overlap = "global"
	default:
		g.overlap = "none"
	}
	// break it in exactly one way; the offended module is any library module, so that it may
	// already have been reached through another module when the illegal import is analysed
	lib := g.mods[1+r.Intn(nlib)]
	switch illegal {
	case 1: // import a private function
		p := c15Fn{name: "priv", pub: false}
		lib.fns = append(lib.fns, p)
		main.addImport(lib.name, "priv")
		g.illegal = "private-function"
	case 2: // import a private global
		lib.globals = append(lib.globals, "secret")
		lib.pubGlob["secret"] = false
		main.addImport(lib.name, "secret")
		g.illegal = "private-global"
	case 3:
		main.addImport(lib.name, "nosuchitem")
		g.illegal = "missing-item"
	case 4:
		main.addImport("nosuchmodule", "f9")
		g.illegal = "missing-module"
	case 5: // a cycle that does not go through the entry module: lib -> other -> lib, lib reachable from main
		other := g.mods[len(g.mods)-1]
		if other == lib {
			other = &c15Mod{name: "mz", pubGlob: map[string]bool{}}
			g.mods = append(g.mods, other)
		}
		lib.fns = append(lib.fns, c15Fn{name: "cyca", pub: true})
		other.fns = append(other.fns, c15Fn{name: "cycb", pub: true})
		lib.addImport(other.name, "cycb")
		other.addImport(lib.name, "cyca")
		if _, ok := main.imports[lib.name]; !ok {
			main.addImport(lib.name, "cyca")
		}
		g.leafFirst(r, lib, other)
		g.illegal = "cycle"
	case 7: // a cycle of length three that does not go through the entry module
		for len(g.mods) < 4 {
			g.mods = append(g.mods, &c15Mod{name: []string{"mx", "my", "mz"}[len(g.mods)-1], pubGlob: map[string]bool{}})
		}
		a, b2, c := g.mods[1], g.mods[2], g.mods[3]
		a.fns = append(a.fns, c15Fn{name: "cyca", pub: true})
		b2.fns = append(b2.fns, c15Fn{name: "cycb", pub: true})
		c.fns = append(c.fns, c15Fn{name: "cycc", pub: true})
		a.addImport(b2.name, "cycb")
		b2.addImport(c.name, "cycc")
		c.addImport(a.name, "cyca")
		if _, ok := main.imports[a.name]; !ok {
			main.addImport(a.name, "cyca")
		}
		g.leafFirst(r, a, b2, c)
		g.illegal = "cycle3"
	case 8: // an event function is not pub
		lib.events = append(lib.events, "onev")
		main.addImport(lib.name, "onev")
		g.illegal = "event-function"
	case 6:
		main.addImport("main", "main")
		g.illegal = "self-import"
	case 9, 10: // an item that a module merely imported is not one of its own pub items
		for len(g.mods) < 3 {
			g.mods = append(g.mods, &c15Mod{name: "mz", pubGlob: map[string]bool{}})
		}
		def, via := g.mods[len(g.mods)-1], g.mods[1] // via imports from def (libraries import from later ones)
		if illegal == 9 {
			via.extra += fmt.Sprintf("import { type T%s } from %s;\npub fn usesT%s() { let q: T%s = 2; println(\"%s.usesT\", q); }\n", def.name, def.name, def.name, def.name, via.name)
			main.addImport(via.name, "type T"+def.name)
			g.illegal = "reexported-type"
		} else {
			def.fns = append(def.fns, c15Fn{name: "orig", pub: true})
			via.addImport(def.name, "orig")
			via.fns = append(via.fns, c15Fn{name: "usesorig", pub: true, callees: []string{"orig"}})
			main.addImport(via.name, "orig")
			g.illegal = "reexported-function"
		}
	case 12: // the same illegal import, at the same position, in two modules: each of them is reported
		for len(g.mods) < 3 {
			g.mods = append(g.mods, &c15Mod{name: []string{"mx", "my"}[len(g.mods)-1], pubGlob: map[string]bool{}, fns: []c15Fn{{name: "only" + []string{"mx", "my"}[len(g.mods)-1], pub: true}}})
		}
		vault := &c15Mod{name: "mv", pubGlob: map[string]bool{}, fns: []c15Fn{{name: "hid", pub: false}, {name: "open", pub: true}}}
		g.mods = append(g.mods, vault)
		what := []string{"import { hid } from mv;\n", "import { nosuch } from mv;\n", "import { q } from nosuchmodule;\n"}[r.Intn(3)]
		for _, m := range []*c15Mod{g.mods[1], g.mods[2]} {
			m.first = what
			g.offenders = append(g.offenders, m.name)
			// main reaches both
			reached := false
			for _, from := range main.impOrder {
				reached = reached || from == m.name
			}
			if !reached {
				for _, f := range m.fns {
					if f.pub {
						main.addImport(m.name, f.name)
						break
					}
				}
			}
		}
		g.illegal = "same-illegal-import-in-two-modules"
	case 13: // an import statement naming a module that does not exist, with nothing in its list
		main.first = "import {} from nosuchmodule;\n"
		g.illegal = "empty-import-from-missing-module"
	case 14: // a private item that shares its name with a pub item of another kind in the same module
		switch r.Intn(3) {
		case 0: // pub type + private function, the function is imported
			lib.extra += "pub type dual = int;\nfn dual() { println(\"" + lib.name + ".dual private\"); }\n"
			main.addImport(lib.name, "dual")
		case 1: // pub function + private type, the type is imported
			lib.extra += "type twin = int;\npub fn twin() { println(\"" + lib.name + ".twin\"); }\n"
			main.addImport(lib.name, "type twin")
		default: // pub type + private global, the global is imported
			lib.extra += "pub type both = int;\nlet both = \"" + lib.name + ".both private\";\n"
			main.addImport(lib.name, "both")
		}
		g.illegal = "private-item-with-pub-namesake"
	case 11: // a builtin module has the value but no type of that name; a library imports the value first
		lib.extra += fmt.Sprintf("import { assert_eq } from testing;\npub fn chk%s() { assert_eq(1, 1); }\n", lib.name)
		main.addImport(lib.name, "chk"+lib.name)
		main.addImport("testing", "type assert_eq")
		g.illegal = "builtin-type-for-value"
	}
	return g
}

// leafFirst: some members of an import cycle import an unrelated leaf module before the import that
// belongs to the cycle (the cycle has to be found whatever was analysed before it).
func (g *c15Graph) leafFirst(r *simrt.Rng, members ...*c15Mod) {
	var leaf *c15Mod
	for _, m := range members {
		if r.Intn(2) == 0 {
			continue
		}
		if leaf == nil {
			leaf = &c15Mod{name: "ml", pubGlob: map[string]bool{}, fns: []c15Fn{{name: "leaff", pub: true}}}
			g.mods = append(g.mods, leaf)
		}
		if m.imports == nil {
			m.imports = map[string][]string{}
		}
		m.imports["ml"] = []string{"leaff"}
		m.impOrder = append([]string{"ml"}, m.impOrder...)
	}
	// ... and some import a module nobody has analysed yet AFTER the import that closes the cycle
	for i, m := range members {
		if r.Intn(2) == 0 {
			continue
		}
		name := fmt.Sprintf("mt%d", i)
		g.mods = append(g.mods, &c15Mod{name: name, pubGlob: map[string]bool{}, fns: []c15Fn{{name: "tail" + name, pub: true}}})
		m.addImport(name, "tail"+name)
	}
}

func (g *c15Graph) sources() Program {
	p := Program{Entry: "main", Modules: map[string]string{}}
	for _, m := range g.mods {
		var b strings.Builder
		b.WriteString(m.first)
		for _, tm := range m.typeFirst {
			fmt.Fprintf(&b, "import { type T%s } from %s;\n", tm, tm)
		}
		if m.name != "main" {
			fmt.Fprintf(&b, "pub type T%s = int;\n", m.name)
		}
		for _, from := range m.impOrder {
			fmt.Fprintf(&b, "import { %s } from %s;\n", strings.Join(m.imports[from], ", "), from)
		}
		for _, tm := range m.typeLast {
			if g.mod(tm) != nil && tm != "main" {
				fmt.Fprintf(&b, "import { type T%s } from %s;\n", tm, tm)
			}
		}
		b.WriteString(m.extra)
		for _, gn := range m.globals {
			pub := ""
			if m.pubGlob[gn] {
				pub = "pub "
			}
			fmt.Fprintf(&b, "%slet %s = %s;\n", pub, gn, c15InitSrc(m.name, gn))
		}
		for _, f := range m.fns {
			pub := ""
			if f.pub {
				pub = "pub "
			}
			fmt.Fprintf(&b, "%sfn %s() {\n", pub, f.name)
			open, close := "", ""
			switch f.wrap {
			case 1:
				open, close = "    if 1 == 1 {\n", "    }\n"
			case 2:
				open, close = "    for _i in 0..1 {\n", "    }\n"
			case 3:
				open, close = "    match 1 {\n    1 => {\n", "    },\n    _ => { }\n    }\n"
			case 4:
				open, close = "    {\n", "    }\n"
			}
			b.WriteString(open)
			if f.global != "" {
				fmt.Fprintf(&b, "    println(\"%s.%s\", %s);\n    %s\n", m.name, f.name, f.global, c15MarkSrc(f.global))
			} else {
				fmt.Fprintf(&b, "    println(\"%s.%s\", \"-\");\n", m.name, f.name)
			}
			for _, rd := range f.reads {
				fmt.Fprintf(&b, "    println(\"%s.%s reads\", \"%s\", %s);\n", m.name, f.name, rd, rd)
			}
			b.WriteString(close)
			for _, c := range f.callees {
				fmt.Fprintf(&b, "    %s();\n", c)
			}
			b.WriteString("}\n")
		}
		for _, ev := range m.events {
			fmt.Fprintf(&b, "event fn %s() { println(\"%s.%s\"); }\n", ev, m.name, ev)
		}
		for _, gn := range m.factories {
			fmt.Fprintf(&b, "pub fn mk%s%s() -> fn() -> str {\n    fn() -> str { %s = %s + \"+\"; %s }\n}\n", gn, m.name, gn, gn, gn)
		}
		if m.hasApply {
			fmt.Fprintf(&b, "pub fn apply%s(cb: fn() -> str) -> str { cb() }\n", m.name)
		}
		if m.boom == "-" {
			fmt.Fprintf(&b, "pub fn boom%s() {\n    println(\"%s.boom\", \"-\");\n    throw(\"boom-%s\");\n}\n", m.name, m.name, m.name)
		} else if m.boom != "" {
			fmt.Fprintf(&b, "pub fn boom%s() {\n    println(\"%s.boom\", %s);\n    %s\n    throw(\"boom-%s\");\n}\n", m.name, m.name, m.boom, c15MarkSrc(m.boom), m.name)
		}
		if m.hasGuard {
			fmt.Fprintf(&b, "pub fn guard%s(cb: fn() -> null) {\n    try {\n        cb();\n    } catch e {\n        println(\"%s.guard caught\", e.message);\n    }\n", m.name, m.name)
			for _, gn := range m.globals {
				fmt.Fprintf(&b, "    println(\"%s.guard own\", \"%s\", %s);\n", m.name, gn, gn)
			}
			for _, f := range m.fns {
				fmt.Fprintf(&b, "    %s();\n", f.name)
			}
			b.WriteString("}\n")
		}
		b.WriteString("fn main() {\n")
		for _, tm := range m.typeFirst {
			fmt.Fprintf(&b, "    let tv%s: T%s = 1;\n    println(\"type\", \"%s\", tv%s);\n", tm, tm, tm, tm)
		}
		if m.name == "main" {
			for _, st := range g.mainBody {
				kind, arg, _ := strings.Cut(st, ":")
				switch kind {
				case "call":
					fmt.Fprintf(&b, "    %s();\n", arg)
				case "spawn":
					fmt.Fprintf(&b, "    spawn %s();\n", arg)
				case "print-import":
					fmt.Fprintf(&b, "    println(\"main sees imported\", \"%s\", %s);\n", arg, arg)
				case "print-own":
					fmt.Fprintf(&b, "    println(\"main own\", \"%s\", %s);\n", arg, arg)
				case "fnvalue":
					fmt.Fprintf(&b, "    let fv%s = %s;\n    fv%s();\n    let lst%s = [%s];\n    for fn_item in lst%s { fn_item(); }\n", arg, arg, arg, arg, arg, arg)
				case "closure":
					mod, gn, _ := strings.Cut(arg, ":")
					fmt.Fprintf(&b, "    let c%s%s = mk%s%s();\n    println(\"closure\", \"%s.%s\", c%s%s());\n    println(\"closure\", \"%s.%s\", c%s%s());\n", gn, mod, gn, mod, mod, gn, gn, mod, mod, gn, gn, mod)
				case "raw":
					fn, _, _ := strings.Cut(arg, ":")
					fmt.Fprintf(&b, "    %s();\n", fn)
				case "rawspawn":
					fn, _, _ := strings.Cut(arg, ":")
					fmt.Fprintf(&b, "    spawn %s();\n", fn)
				case "call-show":
					fmt.Fprintf(&b, "    show%s();\n", arg)
				case "assign-import":
					fmt.Fprintf(&b, "    lim = \"set-by-main\";\n    cap = 30;\n    println(\"main sees\", lim, cap);\n")
				case "catch":
					fmt.Fprintf(&b, "    try {\n        boom%s();\n        println(\"not reached\");\n    } catch e {\n        println(\"main caught\", e.message);\n", arg)
					g.emitMainOwn(&b, "        ", "in catch")
					b.WriteString("    }\n")
					g.emitMainOwn(&b, "    ", "after catch")
				case "guard":
					fmt.Fprintf(&b, "    guard%s(fn() -> null { println(\"main callback\"); throw(\"cb-%s\"); });\n", arg, arg)
					g.emitMainOwn(&b, "    ", "after guard")
				case "callback":
					mod, gn, _ := strings.Cut(arg, ":")
					fmt.Fprintf(&b, "    println(\"callback via\", \"%s\", apply%s(fn() -> str { %s = %s + \"+\"; %s }));\n", mod, mod, gn, gn, gn)
				}
			}
		}
		b.WriteString("}\n")
		p.Modules[m.name] = b.String()
	}
	return p
}

// emitMainOwn: main prints each of its own globals and calls each of its own functions.
func (g *c15Graph) emitMainOwn(b *strings.Builder, ind, tag string) {
	main := g.mods[0]
	for _, gn := range main.globals {
		fmt.Fprintf(b, "%sprintln(\"main %s\", \"%s\", %s);\n", ind, tag, gn, gn)
	}
	for _, f := range main.fns {
		fmt.Fprintf(b, "%s%s();\n", ind, f.name)
	}
}

// expected simulates the legal graph: every call prints its defining module's
// function and global, marks accumulate, globals are initialised exactly once.
func (g *c15Graph) expected() []string {
	vals := map[string]string{}
	for _, m := range g.mods {
		for _, gn := range m.globals {
			vals[m.name+"."+gn] = c15Init(m.name, gn)
		}
	}
	var out []string
	var call func(m *c15Mod, name string, depth int)
	call = func(m *c15Mod, name string, depth int) {
		if depth > 20 {
			return
		}
		def := m
		if from, ok := m.imported(name); ok && m.fn(name) == nil {
			def = g.mod(from)
		}
		f := def.fn(name)
		if f == nil {
			out = append(out, "MODEL-ERROR "+m.name+"."+name)
			return
		}
		if f.global != "" {
			k := def.name + "." + f.global
			out = append(out, fmt.Sprintf("%s.%s %s", def.name, f.name, vals[k]))
			vals[k] = c15Mark(vals[k])
		} else {
			out = append(out, fmt.Sprintf("%s.%s -", def.name, f.name))
		}
		for _, rd := range f.reads {
			from, _ := def.imported(rd)
			out = append(out, fmt.Sprintf("%s.%s reads %s %s", def.name, f.name, rd, vals[from+"."+rd]))
		}
		for _, c := range f.callees {
			call(def, c, depth+1)
		}
	}
	main := g.mods[0]
	mainOwn := func(tag string) {
		for _, gn := range main.globals {
			out = append(out, fmt.Sprintf("main %s %s %s", tag, gn, vals["main."+gn]))
		}
		for _, f := range main.fns {
			call(main, f.name, 0)
		}
	}
	for _, tm := range main.typeFirst {
		out = append(out, fmt.Sprintf("type %s 1", tm))
	}
	for _, st := range g.mainBody {
		kind, arg, _ := strings.Cut(st, ":")
		switch kind {
		case "call", "spawn":
			call(main, arg, 0)
		case "print-import":
			from, _ := main.imported(arg)
			out = append(out, fmt.Sprintf("main sees imported %s %s", arg, vals[from+"."+arg]))
		case "print-own":
			out = append(out, fmt.Sprintf("main own %s %s", arg, vals["main."+arg]))
		case "fnvalue":
			call(main, arg, 0)
			call(main, arg, 0)
		case "closure":
			mod, gn, _ := strings.Cut(arg, ":")
			for k := 0; k < 2; k++ {
				vals[mod+"."+gn] += "+"
				out = append(out, fmt.Sprintf("closure %s.%s %s", mod, gn, vals[mod+"."+gn]))
			}
		case "raw", "rawspawn":
			_, line, _ := strings.Cut(arg, ":")
			out = append(out, line)
		case "call-show":
			if _, ok := vals[arg+".lim"]; !ok {
				vals[arg+".lim"], vals[arg+".cap"] = arg+".lim", "20"
			}
			out = append(out, fmt.Sprintf("%s.show %s %s", arg, vals[arg+".lim"], vals[arg+".cap"]))
		case "assign-import":
			vals[arg+".lim"], vals[arg+".cap"] = "set-by-main", "30"
			out = append(out, "main sees set-by-main 30")
		case "catch":
			m := g.mod(arg)
			if m.boom == "-" {
				out = append(out, fmt.Sprintf("%s.boom -", m.name))
			} else {
				out = append(out, fmt.Sprintf("%s.boom %s", m.name, vals[m.name+"."+m.boom]))
				vals[m.name+"."+m.boom] = c15Mark(vals[m.name+"."+m.boom])
			}
			out = append(out, "main caught boom-"+m.name)
			mainOwn("in catch")
			mainOwn("after catch")
		case "guard":
			m := g.mod(arg)
			out = append(out, "main callback", fmt.Sprintf("%s.guard caught cb-%s", m.name, m.name))
			for _, gn := range m.globals {
				out = append(out, fmt.Sprintf("%s.guard own %s %s", m.name, gn, vals[m.name+"."+gn]))
			}
			for _, f := range m.fns {
				call(m, f.name, 0)
			}
			mainOwn("after guard")
		case "callback":
			mod, gn, _ := strings.Cut(arg, ":")
			vals["main."+gn] += "+"
			out = append(out, fmt.Sprintf("callback via %s %s", mod, vals["main."+gn]))
		}
	}
	return out
}

func runC15(t *testing.T, spec RunSpec) *Verdict {
	const P = "C15"
	v := &Verdict{}
	g := c15Gen(spec.P("g", 0), spec.P("illegal", 0))
	backend := spec.P("backend", 0)
	if backend == 0 && g.illegal == "" && spec.P("illegal", 0) == 0 && spec.P("g", 0)%2 == 0 {
		// VM only: an imported global is the defining module's global (one storage). When the importer
		// assigns it, the defining module's functions see the new value. (The interpreter copies imported
		// globals; which of the two is right is not this property's business, so only the VM is asked.)
		lib := g.mods[1]
		lib.extra += fmt.Sprintf("pub let lim = \"%s.lim\";\npub let cap = 20;\npub fn show%s() { println(\"%s.show\", lim, cap); }\n", lib.name, lib.name, lib.name)
		g.mods[0].addImport(lib.name, "lim")
		g.mods[0].addImport(lib.name, "cap")
		g.mods[0].addImport(lib.name, "show"+lib.name)
		at := len(g.mainBody)
		for at > 0 && (strings.HasPrefix(g.mainBody[at-1], "spawn:") || strings.HasPrefix(g.mainBody[at-1], "rawspawn:")) {
			at--
		}
		ins := []string{"call-show:" + lib.name, "assign-import:" + lib.name, "call-show:" + lib.name}
		g.mainBody = append(g.mainBody[:at], append(ins, g.mainBody[at:]...)...)
	}
	bname := []string{"vm", "interp"}[backend]
	prog := g.sources()
	failAt := spec.F("lookup_fail_at", 0)
	failKind := []string{"error", "notfound"}[spec.F("lookup_fail_kind", 0)]
	var po progOutcome
	var prov Provider
	cfg := simConfig(spec.Sim)
	cfg.TaskStepBudget = 3_000_000
	res := simrt.Run(t, cfg, simSource(spec), func(s *simrt.Sim) {
		s.SetDeadline("program-returns", time.Hour)
		prov = NewProvider(prog.Modules)
		if failAt > 0 {
			prov.SetFault(failAt, failKind)
		}
		out := &Out{}
		po = runProgram(prog, backend, prov, out)
		s.Settle(time.Second)
	})
	v.absorb(P, res)
	v.MapSites = res.MapSites
	v.Output = strings.Split(po.Out, "\n")
	var src strings.Builder
	var names []string
	for n := range prog.Modules {
		names = append(names, n)
	}
	sort.Strings(names)
	for _, n := range names {
		fmt.Fprintf(&src, "// ---- %s.hms\n%s", n, prog.Modules[n])
	}
	v.Extra = map[string]any{"source": src.String()}
	class := "overlap-" + g.overlap
	if v.Class != "" {
		if v.Class != "infra" {
			v.Sig = P + "|" + v.Class + "|" + v.Clause + "|" + bname + ":" + res.Sig
		}
		return v
	}
	faultFired := prov.FaultHits() > 0
	hasErr := po.Syntax != "" || c15HasError(po.Diags)
	switch {
	case po.Panic != "":
		what := "legal"
		if g.illegal != "" {
			what = g.illegal
		} else if faultFired {
			what = "host-lookup-" + failKind
		}
		v.fail(P, "host-crash", "no-host-crash", what+"/"+bname, fmt.Sprintf("%s graph: panic %s", what, po.Panic))
	case g.illegal != "":
		if !hasErr {
			v.fail(P, "wrong-result", "illegal-import-diagnosed", g.illegal+"/"+bname, fmt.Sprintf("graph is illegal (%s) but no error diagnostic was reported; diagnostics: %q", g.illegal, clip(po.Diags)))
		} else if len(g.offenders) > 0 {
			files := c15ErrorFiles(po.Diags)
			for _, m := range g.offenders {
				if !files[m] {
					v.fail(P, "wrong-result", "illegal-import-diagnosed", g.illegal+":per-module/"+bname, fmt.Sprintf("modules %v each contain an illegal import, but no error diagnostic is located in %s; diagnostics: %q", g.offenders, m, clip(po.Diags)))
					break
				}
			}
		} else if strings.HasPrefix(g.illegal, "cycle") || g.illegal == "self-import" {
			// "a cyclic import is reported": some error diagnostic has to be about the cycle. A cycle
			// always comes with incidental errors (items of a half-analysed module are "not found");
			// those do not report the cyclic import.
			if !c15CycleReported(po.Diags) {
				v.fail(P, "wrong-result", "cyclic-import-reported", g.illegal+"/"+bname, fmt.Sprintf("the module graph has an import cycle (%s) but no error diagnostic names a cyclic import; diagnostics: %q", g.illegal, clip(po.Diags)))
			}
		}
	case faultFired:
		if !hasErr {
			v.fail(P, "wrong-result", "host-failure-diagnosed", "host-lookup-"+failKind+"/"+bname, "a module lookup failed on the host but no error diagnostic was reported")
		}
	default:
		if hasErr {
			v.fail(P, "wrong-result", "legal-graph-accepted", class+"/"+bname, "legal module graph received an error diagnostic: "+clip(c15FirstError(po.Diags)+po.Syntax))
			return v
		}
		if po.Compile != "" {
			v.fail(P, "wrong-result", "legal-graph-accepted", class+"/"+bname+":compile", "legal module graph failed to compile: "+clip(po.Compile))
			return v
		}
		if po.Outcome != "completed" {
			v.fail(P, "wrong-result", "outcome", class+"/"+bname+":"+po.Outcome, fmt.Sprintf("legal module graph ended with %s (%s)", po.Outcome, clip(po.Msg)))
			return v
		}
		want := strings.Join(g.expected(), "\n")
		got := strings.TrimSuffix(po.Out, "\n")
		if got != want {
			v.fail(P, "wrong-result", "output", class+"/"+bname, "output differs from the model (an imported function must run its own body against its defining module's globals): "+firstDiffLine(got, want))
		}
	}
	return v
}

func c15HasError(diags string) bool {
	for _, l := range strings.Split(diags, "\n") {
		if strings.HasPrefix(l, fmt.Sprintf("%d|", errorLevel)) {
			return true
		}
	}
	return false
}

var c15CycleWords = regexp.MustCompile(`(?i)cycl|circular|recursive|import loop`)

func c15CycleReported(diags string) bool {
	for _, l := range strings.Split(diags, "\n") {
		if strings.HasPrefix(l, fmt.Sprintf("%d|", errorLevel)) && c15CycleWords.MatchString(l) {
			return true
		}
	}
	return false
}

// c15ErrorFiles: the files in which error diagnostics are located.
func c15ErrorFiles(diags string) map[string]bool {
	out := map[string]bool{}
	for _, l := range strings.Split(diags, "\n") {
		if !strings.HasPrefix(l, fmt.Sprintf("%d|", errorLevel)) {
			continue
		}
		f := strings.Split(l, "|")
		if len(f) >= 3 {
			if i := strings.IndexByte(f[2], ':'); i > 0 {
				out[f[2][:i]] = true
			}
		}
	}
	return out
}

func c15FirstError(diags string) string {
	for _, l := range strings.Split(diags, "\n") {
		if strings.HasPrefix(l, fmt.Sprintf("%d|", errorLevel)) {
			return l
		}
	}
	return ""
}

func planC15(t *testing.T, tier string, seed uint64) ([]RunSpec, error) {
	var plan []RunSpec
	graphs := 60
	orders := 4
	if !quick(tier) {
		graphs = 8000
		orders = 24
	}
	idx := 0
	add := func(params, fault map[string]int, n int) {
		for k := 0; k < n; k++ {
			s := RunSpec{Property: "C15", Params: params, Fault: fault}
			s = s.clone()
			if len(fault) == 0 {
				s.Fault = nil
			}
			gg := c15Gen(params["g"], params["illegal"])
			s.Workload = "c15/legal-overlap-" + gg.overlap
			if gg.illegal != "" {
				s.Workload = "c15/illegal-" + gg.illegal
			} else if fault != nil {
				s.Workload = "c15/host-lookup-fault"
			}
			s.Sim = swarm(seed, idx)
			s.Sim.StepCostNs = 100
			s.Sim.Quantum = nil
			s.Sim.ClockJumps = false
			s.Sim.MapPerm = true
			s.Sim.PPerm = []float64{0.0, 0.2, 1.0, 0.6}[k%4]
			s.Seed = runSeed(seed, idx)
			idx++
			plan = append(plan, s)
		}
	}
	for gi := 0; gi < graphs; gi++ {
		gseed := int(simrt.Mix(seed, uint64(gi)) % 1000000)
		for backend := 0; backend < 2; backend++ {
			add(map[string]int{"g": gseed, "backend": backend, "illegal": 0}, nil, orders)
			ill := 1 + gi%14
			add(map[string]int{"g": gseed, "backend": backend, "illegal": ill}, nil, 1+orders/4)
			if gi%4 == 1 {
				add(map[string]int{"g": gseed, "backend": backend, "illegal": 100}, nil, 1+orders/2)
			}
			if gi%10 == 2 {
				add(map[string]int{"g": gseed, "backend": backend, "illegal": 101}, nil, 2)
			}
			// host lookup faults on each of the first lookups
			if gi%3 == 0 {
				for at := 1; at <= 3; at++ {
					add(map[string]int{"g": gseed, "backend": backend, "illegal": 0}, map[string]int{"lookup_fail_at": at, "lookup_fail_kind": (gi / 3) % 2}, 1)
				}
			}
		}
	}
	return plan, nil
}
