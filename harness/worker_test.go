package harness

// Worker process entry point. The supervisor (cmd/simcheck) starts N of these
// with SIMCHECK_JOB pointing at a job file; each executes its share of the
// plan, minimises what fails, and writes one summary.

import (
	"crypto/sha256"
	"encoding/hex"
	"encoding/json"
	"fmt"
	"os"
	"path/filepath"
	"runtime"
	"sort"
	"sync/atomic"
	"testing"
	"time"

	"verif.local/simrt"
)

type Job struct {
	Mode      string `json:"mode"` // run | replay | hashes
	Property  string `json:"property"`
	Tier      string `json:"tier"`
	Seed      uint64 `json:"seed"`
	Worker    int    `json:"worker"`
	Workers   int    `json:"workers"`
	Out       string `json:"out"`
	ReplayDir string `json:"replay_dir"`
	File      string `json:"file,omitempty"`
	Limit     int    `json:"limit,omitempty"`     // hashes mode: first N plan entries
	BudgetS   int    `json:"budget_s,omitempty"`  // wall-clock budget for this worker (0 = none)
	MaxMinim  int    `json:"max_minim,omitempty"` // max violations minimised per worker
	Skip      []int  `json:"skip,omitempty"`      // plan indices not to execute (they killed an earlier worker process)
	From      int    `json:"from,omitempty"`      // resume: execute plan indices >= From only
	Carry     string `json:"carry,omitempty"`     // resume: summary of the part already executed
	RaceBin   string `json:"race_bin,omitempty"`  // -race build of the worker (C17 free mode)
	MaxBad    int    `json:"max_bad,omitempty"`   // stop executing after this many violating runs (the rest is counted as skipped)
}

type ViolationRec struct {
	Sig      string  `json:"sig"`
	Class    string  `json:"class"`
	Clause   string  `json:"clause"`
	Msg      string  `json:"msg"`
	Replay   string  `json:"replay"`
	Count    int     `json:"count"`
	MinRuns  int     `json:"min_runs"`
	LogHash  string  `json:"log_hash"`
	NonZero  int     `json:"nonzero_choices"`
	FirstIdx int     `json:"first_idx"`
	Spec     RunSpec `json:"spec"`
}

type Summary struct {
	Worker      int                `json:"worker"`
	Planned     int                `json:"planned"`
	Runs        int                `json:"runs"`
	Skipped     int                `json:"skipped_budget"`
	Infra       []string           `json:"infra,omitempty"`
	Violations  []ViolationRec     `json:"violations,omitempty"`
	Distinct    []string           `json:"distinct"` // hashes of (cell, switch sequence) of non-trivial runs
	Interleav   []string           `json:"interleavings"`
	Faults      map[string]int     `json:"faults"`
	Probes      map[string]int     `json:"probes"`
	Workloads   map[string]int     `json:"workloads"`
	Strategies  map[string]int     `json:"strategies"`
	MapSites    map[string]int     `json:"map_sites,omitempty"`
	Decisions   int64              `json:"decisions"`
	Switches    int64              `json:"switches"`
	Steps       int64              `json:"steps"`
	SimNs       int64              `json:"sim_ns"`
	WallS       float64            `json:"wall_s"`
	Samples     []map[string]any   `json:"samples"`
	DetChecked  int                `json:"determinism_rechecked"`
	DetMismatch []string           `json:"determinism_mismatch,omitempty"`
	Hashes      map[string]string  `json:"hashes,omitempty"`
	Replay      *Verdict           `json:"replay,omitempty"`
	Extra       map[string]float64 `json:"extra,omitempty"`
	// OwnProcess: specs the planner wants executed each in a process of its own (reported by worker 0;
	// the supervisor starts one worker per spec in mode "one")
	OwnProcess []RunSpec `json:"own_process,omitempty"`
}

type ReplayFile struct {
	Property string   `json:"property"`
	Sig      string   `json:"signature"`
	Class    string   `json:"class"`
	Clause   string   `json:"clause"`
	Msg      string   `json:"message"`
	LogHash  string   `json:"log_hash"`
	Spec     RunSpec  `json:"spec"`
	Tags     []string `json:"choice_tags_nonzero,omitempty"`
	Output   []string `json:"output,omitempty"`
	Trace    []string `json:"trace_tail"`
	Source   string   `json:"workload_source,omitempty"`
	MinRuns  int      `json:"minimisation_runs"`
	// History says where in which worker's share of which plan the run was: if the run alone does not
	// reproduce the violation in a fresh process, the product carries state from one run to the next
	// inside a process (a cache, a pool, a counter), and the replay re-executes the runs before it.
	History *HistoryRef `json:"process_history,omitempty"`
}

type HistoryRef struct {
	Tier     string  `json:"tier"`
	Seed     uint64  `json:"plan_seed"`
	Worker   int     `json:"worker"`
	Workers  int     `json:"workers"`
	UpTo     int     `json:"plan_index"`
	Original RunSpec `json:"unminimised_spec"`
}

// ownProcessSpecs: filled by a planner with specs that have to be the first thing a process does.
var ownProcessSpecs = map[string][]RunSpec{}

// histRef is set by workerRun for the run at hand (nil in every other mode).
var histRef *HistoryRef

func TestWorker(t *testing.T) {
	path := os.Getenv("SIMCHECK_JOB")
	if path == "" {
		t.Skip("no job")
	}
	raw, err := os.ReadFile(path)
	if err != nil {
		t.Fatal(err)
	}
	var job Job
	if err := json.Unmarshal(raw, &job); err != nil {
		t.Fatal(err)
	}
	startWatchdog()
	raceBin = job.RaceBin
	currentFile = job.Out + ".current"
	sum := &Summary{Worker: job.Worker, Faults: map[string]int{}, Probes: map[string]int{}, Workloads: map[string]int{}, Strategies: map[string]int{}, MapSites: map[string]int{}}
	start := time.Now()
	switch job.Mode {
	case "run":
		workerRun(t, job, sum)
	case "replay":
		workerReplay(t, job, sum)
	case "hashes":
		workerHashes(t, job, sum)
	case "free":
		workerFree(t, job, sum)
	case "one":
		workerOne(t, job, sum)
	default:
		t.Fatalf("unknown mode %q", job.Mode)
	}
	sum.WallS = time.Since(start).Seconds()
	os.Remove(currentFile)
	b, _ := json.Marshal(sum)
	if err := os.WriteFile(job.Out, b, 0o644); err != nil {
		t.Fatal(err)
	}
}

// watchdog: real monotonic clock, outside any bubble. It exists for
// un-modelled blocking only; 30 s without scheduler progress dumps all stacks
// and exits 3 (the supervisor reports INFRA).
var currentRun atomic.Value

func startWatchdog() {
	go func() {
		last := simrt.Progress.Load()
		lastChange := time.Now()
		for {
			time.Sleep(time.Second)
			cur := simrt.Progress.Load()
			if cur != last || currentRun.Load() == nil || currentRun.Load().(string) == "" {
				last, lastChange = cur, time.Now()
				continue
			}
			if time.Since(lastChange) > 60*time.Second {
				buf := make([]byte, 1<<20)
				n := runtime.Stack(buf, true)
				fmt.Fprintf(os.Stderr, "WATCHDOG: no scheduler progress for 60s in run %v\n%s\n", currentRun.Load(), buf[:n])
				os.Exit(3)
			}
		}
	}()
}

// currentFile: the spec about to be executed is written here first, so that a
// process-fatal error (stack exhaustion, concurrent map write) is attributed
// to exactly one run by the supervisor.
var currentFile string
var currentIdx = -1

func exec1(t *testing.T, spec RunSpec) *Verdict {
	b, _ := json.Marshal(spec)
	currentRun.Store(string(b))
	if currentFile != "" {
		os.WriteFile(currentFile, []byte(fmt.Sprintf("{\"idx\":%d,\"spec\":%s}", currentIdx, b)), 0o644)
	}
	v := Execute(t, spec)
	currentRun.Store("")
	return v
}

func hashStr(parts ...string) string {
	h := sha256.New()
	for _, p := range parts {
		h.Write([]byte(p))
		h.Write([]byte{0})
	}
	return hex.EncodeToString(h.Sum(nil))[:12]
}

func (sum *Summary) account(spec RunSpec, v *Verdict) {
	sum.Runs++
	sum.Decisions += int64(v.Decisions)
	sum.Switches += int64(v.Switches)
	sum.Steps += v.Steps
	sum.SimNs += v.SimNs
	for k, n := range v.Faults {
		sum.Faults[k] += n
	}
	for k, n := range v.Probes {
		sum.Probes[k] += n
	}
	for k, n := range v.MapSites {
		sum.MapSites[k] += n
	}
	sum.Workloads[spec.Workload]++
	switch {
	case spec.Choices != nil:
		sum.Strategies["fixed-choice-vector (sweep / replay / baseline)"]++
	case spec.P("free", 0) == 1:
		sum.Strategies["free mode (race detector, uncontrolled schedule)"]++
	case spec.Sim.PCTDepth > 0:
		sum.Strategies[fmt.Sprintf("pct depth %d", spec.Sim.PCTDepth)]++
	default:
		sum.Strategies["random walk"]++
	}
}

func workerRun(t *testing.T, job Job, sum *Summary) {
	plan, err := Plan(t, job.Property, job.Tier, job.Seed)
	if err != nil {
		sum.Infra = append(sum.Infra, "plan: "+err.Error())
		return
	}
	sum.Planned = len(plan)
	if job.Worker == 0 {
		sum.OwnProcess = ownProcessSpecs[job.Property]
	}
	deadline := time.Time{}
	if job.BudgetS > 0 {
		deadline = time.Now().Add(time.Duration(job.BudgetS) * time.Second)
	}
	distinct := map[string]bool{}
	inter := map[string]bool{}
	bySig := map[string]*ViolationRec{}
	maxMin := job.MaxMinim
	if maxMin == 0 {
		maxMin = 6
	}
	mine := 0
	badRuns := 0
	var freeSpecs []RunSpec
	var freeIdx []int
	skip := map[int]bool{}
	for _, i := range job.Skip {
		skip[i] = true
	}
	for idx, spec := range plan {
		if idx%job.Workers != job.Worker || idx < job.From || skip[idx] {
			continue
		}
		currentIdx = idx
		if spec.P("free", 0) == 1 {
			freeSpecs = append(freeSpecs, spec)
			freeIdx = append(freeIdx, idx)
			continue
		}
		if !deadline.IsZero() && time.Now().After(deadline) || job.MaxBad > 0 && badRuns >= job.MaxBad {
			sum.Skipped++
			continue
		}
		v := exec1(t, spec)
		sum.account(spec, v)
		mine++
		nfault := 0
		for _, n := range v.Faults {
			nfault += n
		}
		if v.Tasks >= 3 || nfault > 0 || len(v.MapSites) > 0 || spec.Fault != nil {
			distinct[hashStr(spec.Key(), v.SwitchSeq, v.LogHash)] = true
		}
		inter[hashStr(spec.Workload, fmt.Sprint(spec.Params), v.SwitchSeq)] = true
		if len(sum.Samples) < 3 && (mine == 1 || mine == 7 || mine == 40) {
			sum.Samples = append(sum.Samples, sample(spec, v))
		}
		// determinism: re-run a few of this worker's runs and compare log hashes
		if mine%37 == 5 && sum.DetChecked < 30 {
			v2 := exec1(t, specWithChoices(spec, v))
			sum.DetChecked++
			if v2.LogHash != v.LogHash || v2.Sig != v.Sig {
				// Same spec, same choices, different execution. Either the product keeps state from one run
				// to the next inside the process (then a third run agrees with the second), or something that
				// no seam controls decides (Go's choice among ready select cases, a goroutine started inside
				// the standard library), or the simulator itself is broken. The last is what the determinism
				// self-test rules out on the unchanged tree; here it is told apart from the first by a third run.
				v3 := exec1(t, specWithChoices(spec, v))
				verdictChanges := false
				for _, vr := range []*Verdict{v, v2, v3} {
					verdictChanges = verdictChanges || vr.Bad() && !vr.Infra()
				}
				switch {
				case v3.LogHash == v2.LogHash && v3.Sig == v2.Sig:
					sum.Probes["repetition-differs:process-level-state-in-the-product"]++
				case job.Property == "C14":
					// C14 is the property that says this must not happen
					sum.Probes["repetition-differs:uncontrolled-choice-in-the-product"]++
				case verdictChanges:
					// state in the product that does not settle (a cursor that wraps around, a pool that is
					// refilled): the repetitions that violate the property are reported as such below
					sum.Probes["repetition-differs:verdict-changes-from-run-to-run"]++
				default:
					sum.DetMismatch = append(sum.DetMismatch, fmt.Sprintf("plan[%d]: %s/%s vs %s/%s vs %s/%s", idx, v.LogHash, v.Sig, v2.LogHash, v2.Sig, v3.LogHash, v3.Sig))
				}
				// a repetition that violates the property is a run that violates the property
				for _, vr := range []*Verdict{v2, v3} {
					if !v.Bad() && vr.Bad() && !vr.Infra() {
						v = vr
					}
				}
			}
		}
		if v.Infra() {
			if len(sum.Infra) < 10 {
				sum.Infra = append(sum.Infra, fmt.Sprintf("plan[%d] %s: %s", idx, spec.Workload, v.Msg))
			}
			continue
		}
		if !v.Bad() {
			continue
		}
		badRuns++
		if rec, ok := bySig[v.Sig]; ok {
			rec.Count++
			continue
		}
		rec := &ViolationRec{Sig: v.Sig, Class: v.Class, Clause: v.Clause, Msg: v.Msg, Count: 1, FirstIdx: idx, Spec: spec}
		bySig[v.Sig] = rec
		histRef = &HistoryRef{Tier: job.Tier, Seed: job.Seed, Worker: job.Worker, Workers: job.Workers, UpTo: idx, Original: specWithChoices(spec, v)}
		if len(bySig) <= maxMin {
			ms, mv, runs := Minimise(t, spec, v)
			rec.MinRuns = runs
			rec.Spec = ms
			rec.Msg = mv.Msg
			rec.LogHash = mv.LogHash
			if ms.Choices != nil {
				rec.NonZero = len(ms.Choices.NZ)
			}
			rec.Replay = writeReplay(job.ReplayDir, job.Property, ms, mv, runs, job.Worker)
		} else {
			// beyond the minimisation budget of this worker: replayable, not minimised
			rs := specWithChoices(spec, v)
			rec.Spec = rs
			rec.LogHash = v.LogHash
			rec.NonZero = 1 << 30
			rec.Replay = writeReplay(job.ReplayDir, job.Property, rs, v, 0, job.Worker)
		}
	}
	// free-mode (-race) runs of this worker's share, in one batch
	if len(freeSpecs) > 0 {
		vs, err := execFree(freeSpecs, filepath.Dir(job.Out), fmt.Sprintf("w%d", job.Worker))
		if err != nil {
			sum.Infra = append(sum.Infra, err.Error())
		}
		for i, v := range vs {
			spec := freeSpecs[i]
			sum.Runs++
			sum.Workloads[spec.Workload]++
			sum.Probes["free-mode-race-detector-runs"]++
			distinct[hashStr(spec.Key(), fmt.Sprint(spec.Seed))] = true
			if v.Infra() {
				sum.Infra = append(sum.Infra, v.Msg)
				continue
			}
			if !v.Bad() {
				continue
			}
			if rec, ok := bySig[v.Sig]; ok {
				rec.Count++
				continue
			}
			rec := &ViolationRec{Sig: v.Sig, Class: v.Class, Clause: v.Clause, Msg: v.Msg, Count: 1, FirstIdx: freeIdx[i], Spec: spec}
			rec.Replay = writeReplay(job.ReplayDir, job.Property, spec, v, 0, job.Worker)
			bySig[v.Sig] = rec
		}
	}
	var sigs []string
	for s := range bySig {
		sigs = append(sigs, s)
	}
	sort.Strings(sigs)
	for _, s := range sigs {
		sum.Violations = append(sum.Violations, *bySig[s])
	}
	for k := range distinct {
		sum.Distinct = append(sum.Distinct, k)
	}
	for k := range inter {
		sum.Interleav = append(sum.Interleav, k)
	}
}

func sample(spec RunSpec, v *Verdict) map[string]any {
	nz := 0
	for _, c := range v.Choices {
		if c != 0 {
			nz++
		}
	}
	tail := v.LogTail
	if len(tail) > 12 {
		tail = tail[len(tail)-12:]
	}
	out := v.Output
	if len(out) > 12 {
		out = out[:12]
	}
	return map[string]any{
		"workload": spec.Workload, "params": spec.Params, "fault": spec.Fault, "sim": spec.Sim, "seed": spec.Seed,
		"decisions": v.Decisions, "switches": v.Switches, "steps": v.Steps, "sim_ms": float64(v.SimNs) / 1e6,
		"choices_total": len(v.Choices), "choices_nonzero": nz, "verdict": v.Class, "output_head": out, "trace_tail": tail,
	}
}

func specWithChoices(spec RunSpec, v *Verdict) RunSpec {
	c := spec.clone()
	sp := simrt.ToSparse(v.Choices)
	c.Choices = &sp
	return c
}

func writeReplay(dir, prop string, spec RunSpec, v *Verdict, runs int, worker int) string {
	os.MkdirAll(dir, 0o755)
	rf := ReplayFile{Property: prop, Sig: v.Sig, Class: v.Class, Clause: v.Clause, Msg: v.Msg, LogHash: v.LogHash, Spec: spec, Output: v.Output, Trace: v.LogTail, MinRuns: runs}
	if spec.P("free", 0) != 1 {
		rf.History = histRef
	}
	for i, c := range v.Choices {
		if c != 0 {
			rf.Tags = append(rf.Tags, fmt.Sprintf("%d:%s=%d", i, v.Tags[i], c))
		}
	}
	if src, ok := v.Extra["source"].(string); ok {
		rf.Source = src
	}
	b, _ := json.MarshalIndent(rf, "", " ")
	name := filepath.Join(dir, fmt.Sprintf("%s-%s.w%d.json", prop, hashStr(v.Sig), worker))
	os.WriteFile(name, b, 0o644)
	return name
}

func workerReplay(t *testing.T, job Job, sum *Summary) {
	raw, err := os.ReadFile(job.File)
	if err != nil {
		sum.Infra = append(sum.Infra, err.Error())
		return
	}
	var rf ReplayFile
	if err := json.Unmarshal(raw, &rf); err != nil {
		sum.Infra = append(sum.Infra, err.Error())
		return
	}
	var v *Verdict
	if rf.Spec.P("free", 0) == 1 {
		// uncontrolled schedule: rerun the workload until the report recurs (bounded)
		batch := make([]RunSpec, 12)
		for i := range batch {
			batch[i] = rf.Spec.clone()
			batch[i].Seed = rf.Spec.Seed + uint64(i)
		}
		vs, err := execFree(batch, filepath.Dir(job.Out), "replay")
		v = &Verdict{}
		if err != nil {
			v.fail("C17", "infra", "", "", err.Error())
		}
		for _, x := range vs {
			if x.Sig == rf.Sig {
				v = x
				break
			}
			if x.Bad() && !v.Bad() {
				v = x
			}
		}
	} else {
		v = exec1(t, rf.Spec)
	}
	mode := "single-run"
	if v.Sig != rf.Sig && rf.History != nil && rf.Spec.P("free", 0) != 1 {
		// The run alone does not show it in a fresh process: re-execute what this worker had executed
		// before it (same plan, same share), then the run as it was found, then the minimised run.
		h := rf.History
		plan, err := Plan(t, rf.Property, h.Tier, h.Seed)
		if err == nil && h.Workers > 0 {
			n := 0
			for idx, spec := range plan {
				if idx >= h.UpTo {
					break
				}
				if idx%h.Workers != h.Worker || spec.P("free", 0) == 1 {
					continue
				}
				exec1(t, spec)
				n++
			}
			// (each candidate up to three times in a row: the violation may have been found by the
			// in-batch repetition of a run, i.e. in the state the same run had left behind)
		cands:
			for _, cand := range []RunSpec{h.Original, rf.Spec} {
				for rep := 0; rep < 3; rep++ {
					if hv := exec1(t, cand); hv.Sig == rf.Sig {
						v = hv
						mode = fmt.Sprintf("process-history:%d", n)
						break cands
					}
				}
			}
		}
	}
	sum.account(rf.Spec, v)
	sum.Replay = v
	sum.Hashes = map[string]string{"recorded_sig": rf.Sig, "recorded_hash": rf.LogHash, "replay_mode": mode}
	if v.Infra() {
		sum.Infra = append(sum.Infra, v.Msg)
	}
}

// workerOne executes the single spec in job.File and nothing else: no planning, no baselines - whatever
// the spec runs first is the first thing this process ever analyses.
func workerOne(t *testing.T, job Job, sum *Summary) {
	raw, err := os.ReadFile(job.File)
	if err != nil {
		sum.Infra = append(sum.Infra, err.Error())
		return
	}
	var spec RunSpec
	if err := json.Unmarshal(raw, &spec); err != nil {
		sum.Infra = append(sum.Infra, err.Error())
		return
	}
	sum.Planned = 1
	v := exec1(t, spec)
	sum.account(spec, v)
	if v.Infra() {
		sum.Infra = append(sum.Infra, spec.Workload+": "+v.Msg)
		return
	}
	if v.Bad() {
		rs := specWithChoices(spec, v)
		rec := ViolationRec{Sig: v.Sig, Class: v.Class, Clause: v.Clause, Msg: v.Msg, Count: 1, Spec: rs, LogHash: v.LogHash}
		histRef = nil
		rec.Replay = writeReplay(job.ReplayDir, job.Property, rs, v, 0, 1000+job.Worker)
		sum.Violations = append(sum.Violations, rec)
	}
}

// workerHashes executes the first Limit plan entries and reports their log
// hashes (determinism self-test: the supervisor diffs these across processes
// and GOMAXPROCS values).
func workerHashes(t *testing.T, job Job, sum *Summary) {
	plan, err := Plan(t, job.Property, job.Tier, job.Seed)
	if err != nil {
		sum.Infra = append(sum.Infra, "plan: "+err.Error())
		return
	}
	sum.Planned = len(plan)
	sum.Hashes = map[string]string{}
	step := 1
	if job.Limit > 0 && len(plan) > job.Limit {
		step = len(plan) / job.Limit
	}
	for idx := 0; idx < len(plan); idx += step {
		v := exec1(t, plan[idx])
		sum.account(plan[idx], v)
		sum.Hashes[fmt.Sprint(idx)] = v.LogHash + "/" + v.Sig
	}
}
