package harness

// A small seeded generator of valid, terminating Homescript statement lists
// over int variables. It widens the workloads of C09 (per-iteration resource
// levels must stay constant whatever the loop body does) and C10 (an endless
// loop around any body must stop when cancelled) beyond the hand-written
// shapes: which construct sits where is drawn from the seed.
//
// Everything is an int; inner loops are bounded by counters; a `throw` is
// always caught in the same function (a throw that unwinds across a call was a
// defect of the pinned tree, repaired by 2fae662; the hand-written workloads of
// C09, C10 and C16 cover cross-frame throws).

import (
	"fmt"
	"strings"

	"verif.local/simrt"
)

type pgen struct {
	r       *simrt.Rng
	n       int // fresh-name counter
	helpers []string
	nhelp   int
	budget  int // remaining statements
}

func newPgen(seed uint64) *pgen { return &pgen{r: simrt.NewRng(seed), budget: 14} }

func (g *pgen) fresh(p string) string { g.n++; return fmt.Sprintf("%s%d", p, g.n) }

func (g *pgen) expr(d int, vars []string) string {
	if d <= 0 {
		switch g.r.Intn(3) {
		case 0:
			return fmt.Sprint(g.r.Intn(7))
		default:
			return vars[g.r.Intn(len(vars))]
		}
	}
	switch g.r.Intn(10) {
	case 0:
		return fmt.Sprintf("(%s + %s)", g.expr(d-1, vars), g.expr(d-1, vars))
	case 1:
		return fmt.Sprintf("(%s * 2)", g.expr(d-1, vars))
	case 2:
		return fmt.Sprintf("(%s %% 5)", g.expr(d-1, vars))
	case 3:
		return fmt.Sprintf("(if %s { %s } else { %s })", g.cond(d-1, vars), g.expr(d-1, vars), g.expr(d-1, vars))
	case 4:
		return fmt.Sprintf("(match %s %% 2 { 0 => { %s }, _ => { %s } })", g.expr(d-1, vars), g.expr(d-1, vars), g.expr(d-1, vars))
	case 5:
		if g.nhelp > 0 {
			return fmt.Sprintf("h%d(%s)", g.r.Intn(g.nhelp), g.expr(d-1, vars))
		}
		return g.expr(d-1, vars)
	case 6:
		return fmt.Sprintf("[%s, %s][%d]", g.expr(d-1, vars), g.expr(d-1, vars), g.r.Intn(2))
	case 7:
		return fmt.Sprintf("(try { %s } catch %s { %s })", g.expr(d-1, vars), g.fresh("x"), g.expr(d-1, vars))
	default:
		return g.expr(d-1, vars)
	}
}

func (g *pgen) cond(d int, vars []string) string {
	switch g.r.Intn(4) {
	case 0:
		return fmt.Sprintf("%s %% 2 == 0", g.expr(d, vars))
	case 1:
		return fmt.Sprintf("%s > 3", g.expr(d, vars))
	case 2:
		return fmt.Sprintf("%s < %s", g.expr(d, vars), g.expr(d, vars))
	default:
		return fmt.Sprintf("%s %% 3 != 1", g.expr(d, vars))
	}
}

// stmts generates a statement list. inLoop: break/continue allowed; inFn: return allowed.
func (g *pgen) stmts(d int, vars []string, inLoop, inFn bool, ind string) string {
	var b strings.Builder
	n := 1 + g.r.Intn(3)
	for k := 0; k < n && g.budget > 0; k++ {
		g.budget--
		b.WriteString(g.stmt(d, vars, inLoop, inFn, ind))
	}
	return b.String()
}

func (g *pgen) stmt(d int, vars []string, inLoop, inFn bool, ind string) string {
	acc := vars[0] // the accumulator
	if d <= 0 {
		return fmt.Sprintf("%s%s = %s + %s;\n", ind, acc, acc, g.expr(1, vars))
	}
	in2 := ind + "    "
	switch g.r.Intn(19) {
	case 16: // a function literal that captures nothing, made and called on the spot
		lf := g.fresh("lf")
		return fmt.Sprintf("%slet %s = fn(q: int) -> int { if q > 4 { return q %% 9; } q * 2 %% 9 };\n%s%s = %s + %s(%s);\n", ind, lf, ind, acc, acc, lf, g.expr(1, vars))
	case 17: // a value-carrying if / try whose value nobody uses
		if g.r.Intn(2) == 0 {
			return fmt.Sprintf("%sif %s { %s } else { %s };\n", ind, g.cond(1, vars), g.expr(1, vars), g.expr(1, vars))
		}
		return fmt.Sprintf("%stry { if %s { throw(\"u\"); } 1 * %s } catch %s { %s };\n", ind, g.cond(1, vars), g.expr(1, vars), g.fresh("x"), g.expr(1, vars))
	case 18: // a loop over a literal that is left early
		ev := g.fresh("c")
		kv := g.fresh("k")
		return fmt.Sprintf("%slet %s = 0;\n%sfor %s in \"generator\" {\n%s%s = %s + 1;\n%sif %s > %d { break; }\n%s}\n%s%s = %s + %s;\n", ind, kv, ind, ev, in2, kv, kv, in2, kv, 1+g.r.Intn(4), ind, ind, acc, acc, kv)
	case 0:
		return fmt.Sprintf("%s%s = %s + %s;\n", ind, acc, acc, g.expr(2, vars))
	case 1:
		t := g.fresh("t")
		return fmt.Sprintf("%slet %s = %s;\n%s%s = %s + %s;\n", ind, t, g.expr(2, vars), ind, acc, acc, t)
	case 2:
		return fmt.Sprintf("%sif %s {\n%s%s} else {\n%s%s}\n", ind, g.cond(1, vars), g.stmts(d-1, vars, inLoop, inFn, in2), ind, g.stmts(d-1, vars, inLoop, inFn, in2), ind)
	case 3:
		return fmt.Sprintf("%smatch %s %% 3 {\n%s0 => {\n%s%s},\n%s1 => {\n%s%s},\n%s_ => {\n%s%s},\n%s}\n", ind, g.expr(1, vars),
			in2, g.stmts(d-1, vars, inLoop, inFn, in2+"    "), in2, in2, g.stmts(d-1, vars, inLoop, inFn, in2+"    "), in2, in2, g.stmts(d-1, vars, inLoop, inFn, in2+"    "), in2, ind)
	case 4:
		kv := g.fresh("k")
		return fmt.Sprintf("%slet %s = 0;\n%swhile %s < %d {\n%s%s = %s + 1;\n%s%s}\n", ind, kv, ind, kv, 2+g.r.Intn(3), in2, kv, kv, g.stmts(d-1, append(vars, kv), true, inFn, in2), ind)
	case 5:
		jv := g.fresh("j")
		return fmt.Sprintf("%sfor %s in 0..%d {\n%s%s}\n", ind, jv, 2+g.r.Intn(3), g.stmts(d-1, append(vars, jv), true, inFn, in2), ind)
	case 6:
		ev := g.fresh("e")
		return fmt.Sprintf("%sfor %s in [%d, %d, %d] {\n%s%s}\n", ind, ev, g.r.Intn(5), g.r.Intn(5), g.r.Intn(5), g.stmts(d-1, append(vars, ev), true, inFn, in2), ind)
	case 7:
		kv := g.fresh("k")
		return fmt.Sprintf("%slet %s = 0;\n%sloop {\n%s%s = %s + 1;\n%sif %s > %d { break; }\n%s%s}\n", ind, kv, ind, in2, kv, kv, in2, kv, 1+g.r.Intn(3), g.stmts(d-1, append(vars, kv), true, inFn, in2), ind)
	case 8:
		if inLoop {
			return fmt.Sprintf("%sif %s { break; }\n", ind, g.cond(1, vars))
		}
		return fmt.Sprintf("%s%s = %s + 1;\n", ind, acc, acc)
	case 9:
		if inLoop {
			return fmt.Sprintf("%sif %s { continue; }\n", ind, g.cond(1, vars))
		}
		return fmt.Sprintf("%s%s = %s + 2;\n", ind, acc, acc)
	case 10:
		ex := g.fresh("x")
		return fmt.Sprintf("%stry {\n%s%sif %s { throw(\"t\"); }\n%s%s} catch %s {\n%s%s}\n", ind, g.stmts(d-1, vars, inLoop, inFn, in2), in2, g.cond(1, vars), g.stmts(d-1, vars, inLoop, inFn, in2), ind, ex, g.stmts(d-1, vars, inLoop, inFn, in2), ind)
	case 11:
		return fmt.Sprintf("%s1 * %s;\n", ind, g.expr(2, vars)) // (a statement must not start with a parenthesis: it would be parsed as a call of the block before it)
	case 12:
		return fmt.Sprintf("%s{\n%s%s}\n", ind, g.stmts(d-1, vars, inLoop, inFn, in2), ind)
	case 13:
		if inFn {
			return fmt.Sprintf("%sif %s { return %s; }\n", ind, g.cond(1, vars), g.expr(1, vars))
		}
		return fmt.Sprintf("%s%s = %s + 3;\n", ind, acc, acc)
	case 14:
		if g.nhelp > 0 {
			return fmt.Sprintf("%s%s = %s + h%d(%s);\n", ind, acc, acc, g.r.Intn(g.nhelp), g.expr(1, vars))
		}
		return fmt.Sprintf("%s%s = %s + 4;\n", ind, acc, acc)
	default:
		return fmt.Sprintf("%s%s = (%s + %s) %% 1000;\n", ind, acc, acc, g.expr(2, vars))
	}
}

// genProgram builds helper functions (with returns out of nested constructs) and a loop body.
// kind "leak": fn main() { let y = 0; for i in 0..iters { BODY tick(); } println("y", y); }
// kind "endless": fn main() { let y = 0; let i = 0; loop { i = i + 1; BODY } }
func genProgram(seed uint64, kind string, iters int) string {
	g := newPgen(seed)
	var b strings.Builder
	nh := g.r.Intn(3)
	for h := 0; h < nh; h++ {
		g.budget = 6
		body := g.stmts(2, []string{"a", "p"}, false, true, "    ")
		fmt.Fprintf(&b, "fn h%d(p: int) -> int {\n    let a = p %% 7;\n%s    a %% 100\n}\n", h, body)
		g.nhelp = h + 1
	}
	g.budget = 12
	body := g.stmts(3, []string{"y", "i"}, false, false, "        ")
	switch kind {
	case "leak":
		fmt.Fprintf(&b, "fn main() {\n    let y = 0;\n    for i in 0..%d {\n%s        y = y %% 100000;\n        tick();\n    }\n    println(\"y\", y);\n}\n", iters, body)
	default:
		fmt.Fprintf(&b, "fn main() {\n    let y = 0;\n    let i = 0;\n    loop {\n        i = (i + 1) %% 1000;\n%s        y = y %% 100000;\n    }\n}\n", body)
	}
	return b.String()
}

// genFunctions builds helpers plus k pure entry functions e0..e{k-1}(p: int) -> int whose result depends
// on nothing but the argument (no globals, no output): calling one twice with the same argument must
// give the same value, whatever ran before on the same VM and whatever runs next to it.
func genFunctions(seed uint64, k int) string {
	g := newPgen(seed)
	var b strings.Builder
	nh := g.r.Intn(3)
	for h := 0; h < nh; h++ {
		g.budget = 6
		body := g.stmts(2, []string{"a", "p"}, false, true, "    ")
		fmt.Fprintf(&b, "fn h%d(p: int) -> int {\n    let a = p %% 7;\n%s    a %% 100\n}\n", h, body)
		g.nhelp = h + 1
	}
	for e := 0; e < k; e++ {
		g.budget = 9
		body := g.stmts(3, []string{"a", "p"}, false, true, "    ")
		fmt.Fprintf(&b, "fn e%d(p: int) -> int {\n    let a = p %% 11;\n%s    a = (a %% 100000 + 100000) %% 100000;\n    a\n}\n", e, body)
	}
	return b.String()
}
