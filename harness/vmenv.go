package harness

import (
	"context"
	"fmt"
	"reflect"

	hms "github.com/smarthome-go/homescript/v3/homescript"
	herrors "github.com/smarthome-go/homescript/v3/homescript/errors"
	"github.com/smarthome-go/homescript/v3/homescript/runtime"
	"github.com/smarthome-go/homescript/v3/homescript/runtime/value"
)

var generousLimits = runtime.CoreLimits{CallStackMaxSize: 2000, StackMaxSize: 5000, MaxMemorySize: 20000}

// vmEnv is one VM instance with its simulated host.
type vmEnv struct {
	prog   *compiled
	out    *Out
	ctx    *Ctx
	exec   VMExec
	vm     *runtime.VM
	limits runtime.CoreLimits
	tick   func() // host builtin `tick()`: called by workloads once per iteration
}

func newVMEnv(prog *compiled, limits runtime.CoreLimits) *vmEnv {
	out := &Out{}
	return &vmEnv{prog: prog, out: out, ctx: NewCtx(), exec: NewVMExec(out), limits: limits}
}

// boot creates the VM (runs the program's initialiser, as the product does).
func (e *vmEnv) boot() {
	ctxp, cfp := e.ctx.AsContext()
	adds := hms.TestingVmScopeAdditions()
	adds["tick"] = *value.NewValueBuiltinFunction(func(executor value.Executor, cancelCtx *context.Context, span herrors.Span, args ...value.Value) (*value.Value, *value.VmInterrupt) {
		if e.tick != nil {
			e.tick()
		}
		return value.NewValueNull(), nil
	})
	vm := runtime.NewVM(e.prog.out, value.Executor(e.exec), ctxp, cfp, adds, e.limits)
	e.vm = &vm
}

// outcome classifies what Wait returned.
type outcome struct {
	Kind    string // completed | terminated | fatal:<kind> | exception | exit
	Msg     string
	CoreNum uint
}

func (o outcome) String() string { return o.Kind }

func classify(coreNum uint, i *value.VmInterrupt) (o outcome) {
	if i == nil {
		return outcome{Kind: "completed"}
	}
	o.CoreNum = coreNum
	o.Msg = (*i).Message()
	switch (*i).Kind() {
	case value.Vm_TerminateInterruptKind:
		o.Kind = "terminated"
	case value.Vm_FatalExceptionInterruptKind:
		o.Kind = "fatal:" + fatalKind((*i).(value.VmFatalException).ErrKind)
	case value.Vm_NormalExceptionInterruptKind:
		o.Kind = "exception"
	case value.Vm_ExitInterruptKind:
		o.Kind = "exit"
	default:
		o.Kind = fmt.Sprintf("unknown(%d)", (*i).Kind())
	}
	return o
}

func fatalKind(k value.VMFatalExceptionKind) string {
	switch k {
	case value.Vm_StackOverFlowErrorKind:
		return "StackOverFlow"
	case value.Vm_OutOfMemoryErrorKind:
		return "OutOfMemory"
	case value.Vm_ValueErrorKind:
		return "ValueError"
	case value.Vm_ImportErrorKind:
		return "ImportError"
	case value.Vm_HostErrorKind:
		return "HostError"
	case value.Vm_JsonErrorKind:
		return "JsonError"
	case value.Vm_CastErrorKind:
		return "CastError"
	case value.Vm_IndexOutOfBoundsErrorKind:
		return "IndexOutOfBounds"
	case value.Vm_UncaughtThrowKind:
		return "UncaughtThrow"
	}
	return fmt.Sprintf("kind%d", k)
}

// ---- reflective access to internals the oracles look at ----
// The harness must keep compiling when a maintainer renames or restructures internal fields:
// if a field is not there any more, the corresponding invariant is skipped and a probe says so.

// vmCoreCount: len(vm.Cores.Cores).
func vmCoreCount(vm *runtime.VM) (int, bool) {
	v := reflect.ValueOf(vm).Elem()
	cores := v.FieldByName("Cores")
	if !cores.IsValid() {
		return 0, false
	}
	if cores.Kind() == reflect.Struct {
		cores = cores.FieldByName("Cores")
	}
	if !cores.IsValid() || (cores.Kind() != reflect.Slice && cores.Kind() != reflect.Map) {
		return 0, false
	}
	return cores.Len(), true
}

// coreLevels: (call depth, operand-stack depth, memory pointer, handler-stack depth) of a core.
func coreLevels(core *runtime.Core) (call, stack, mem, handlers int, ok bool) {
	if core == nil {
		return 0, 0, 0, 0, false
	}
	v := reflect.ValueOf(core).Elem()
	cs, st, mp, hs := v.FieldByName("CallStack"), v.FieldByName("Stack"), v.FieldByName("MemoryPointer"), v.FieldByName("ExceptionCatchLabels")
	if !cs.IsValid() || !st.IsValid() || !mp.IsValid() || cs.Kind() != reflect.Slice || st.Kind() != reflect.Slice || !mp.CanInt() {
		return 0, 0, 0, 0, false
	}
	if hs.IsValid() && hs.Kind() == reflect.Slice {
		handlers = hs.Len()
	}
	return cs.Len(), st.Len(), int(mp.Int()), handlers, true
}
