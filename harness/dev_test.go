package harness

import (
	"fmt"
	"strings"
	"encoding/json"
	"os"
	"strconv"
	"testing"
)

func defaultSim() SimParams {
	return SimParams{StepCostNs: 1000, PSched: 0.2, PQuantum: 0.1, POther: 0.1}
}

func TestDevC17(t *testing.T) {
	if os.Getenv("DEV") == "" {
		t.Skip()
	}
	shape, _ := strconv.Atoi(os.Getenv("SHAPE"))
	nseeds, _ := strconv.Atoi(os.Getenv("SEEDS"))
	if nseeds == 0 {
		nseeds = 50
	}
	bad := 0
	for seed := 0; seed < nseeds; seed++ {
		spec := RunSpec{Property: "C17", Workload: "c17", Params: map[string]int{"shape": shape, "n": 3, "iters": 2, "main_late": seed % 3}, Sim: defaultSim(), Seed: uint64(seed)}
		if seed%2 == 1 {
			spec.Sim.Quantum = []int64{8, 64, 512}
		}
		v := Execute(t, spec)
		if v.Class != "" {
			bad++
			if bad <= 3 {
				t.Logf("seed %d: %s | %s | %s\n  out=%v", seed, v.Class, v.Sig, v.Msg, v.Output)
				for _, l := range v.LogTail {
					t.Log("   ", l)
				}
			}
		} else if seed < 2 {
			t.Logf("seed %d ok: dec=%d sw=%d steps=%d sim=%dms out=%v", seed, v.Decisions, v.Switches, v.Steps, v.SimNs/1e6, v.Output)
		}
	}
	t.Logf("shape %d: %d/%d runs violated", shape, bad, nseeds)
}

func TestDevReplay(t *testing.T) {
	f := os.Getenv("REPLAY")
	if f == "" {
		t.Skip()
	}
	raw, _ := os.ReadFile(f)
	var rf ReplayFile
	json.Unmarshal(raw, &rf)
	for i := 0; i < 3; i++ {
		v := Execute(t, rf.Spec)
		t.Logf("run %d: hash=%s sig=%s steps=%d dec=%d", i, v.LogHash, v.Sig, v.Steps, v.Decisions)
		if os.Getenv("FULL") != "" && i == 0 {
			for _, l := range v.LogTail {
				t.Log(l)
			}
		}
	}
}

func TestDevPlan(t *testing.T) {
	prop := os.Getenv("PLAN")
	if prop == "" {
		t.Skip()
	}
	tier := os.Getenv("TIER")
	if tier == "" {
		tier = "quick"
	}
	plan, err := Plan(t, prop, tier, 1)
	if err != nil {
		t.Fatal(err)
	}
	t.Logf("%d runs planned", len(plan))
	stride, _ := strconv.Atoi(os.Getenv("STRIDE"))
	if stride == 0 {
		stride = 1
	}
	sigs := map[string]int{}
	first := map[string]RunSpec{}
	msgs := map[string]string{}
	n := 0
	for i := 0; i < len(plan); i += stride {
		if os.Getenv("SKIPILL") != "" && fmt.Sprint(plan[i].Params["illegal"]) == os.Getenv("SKIPILL") {
			continue
		}
		v := Execute(t, plan[i])
		n++
		if v.Class != "" {
			sigs[v.Sig]++
			if _, ok := first[v.Sig]; !ok {
				first[v.Sig] = plan[i]
				msgs[v.Sig] = v.Msg
			}
		}
	}
	t.Logf("%d runs executed", n)
	for s, c := range sigs {
		b, _ := json.Marshal(first[s])
		t.Logf("%4d x %s\n      %s\n      first: %s", c, s, msgs[s], b)
	}
}

func TestDevSpec(t *testing.T) {
	js := os.Getenv("SPEC")
	if js == "" {
		t.Skip()
	}
	var spec RunSpec
	if err := json.Unmarshal([]byte(js), &spec); err != nil {
		t.Fatal(err)
	}
	v := Execute(t, spec)
	t.Logf("class=%s sig=%s\nmsg=%s\nout=%v steps=%d dec=%d sim=%dms", v.Class, v.Sig, v.Msg, v.Output, v.Steps, v.Decisions, v.SimNs/1e6)
	for _, l := range v.LogTail {
		t.Log(l)
	}
}

func TestDevCorpus(t *testing.T) {
	if os.Getenv("CORPUS") == "" {
		t.Skip()
	}
	loadCorpus()
	for _, p := range c14Corpus {
		for b := 0; b < 2; b++ {
			base := c14Baseline(t, p, b)
			t.Logf("%-40s b=%d steps=%-8d skip=%q outcome=%s msg=%q diags=%d syntax=%q compile=%q outlen=%d", p.name, b, base.steps, base.skip, base.po.Outcome, clip(base.po.Msg), strings.Count(base.po.Diags, "\n"), clip(base.po.Syntax), clip(base.po.Compile), len(base.po.Out))
		}
	}
}

func TestDevDiags(t *testing.T) {
	name := os.Getenv("DIAGS")
	if name == "" {
		t.Skip()
	}
	loadCorpus()
	for _, p := range c14Corpus {
		if p.name == name {
			a := Analyze(p.prog, NewProvider(p.prog.Modules))
			t.Logf("syntax=%v panic=%q", a.Syntax, a.PanicMsg)
			for _, d := range a.Diags {
				t.Log(d)
			}
		}
	}
}

func TestDevC15Graph(t *testing.T) {
	if os.Getenv("C15G") == "" {
		t.Skip()
	}
	ill, _ := strconv.Atoi(os.Getenv("ILL"))
	for g := 0; g < 6; g++ {
		gr := c15Gen(g*7919+13, ill)
		p := gr.sources()
		a := Analyze(p, NewProvider(p.Modules))
		var errs []string
		for _, d := range a.Diags {
			if strings.HasPrefix(d, fmt.Sprintf("%d|", errorLevel)) {
				errs = append(errs, d)
			}
		}
		t.Logf("graph %d illegal=%s overlap=%s errors=%v syntax=%v", g, gr.illegal, gr.overlap, errs, a.Syntax)
		if os.Getenv("SRC") != "" {
			for n, s := range p.Modules {
				t.Logf("--- %s\n%s", n, s)
			}
		}
	}
}

func TestDevGen(t *testing.T) {
	if os.Getenv("GEN") == "" {
		t.Skip()
	}
	bad := 0
	for seed := uint64(1); seed <= 300; seed++ {
		for _, kind := range []string{"leak", "endless"} {
			src := genProgram(seed, kind, 5)
			_, err := MustCompile(Single(src))
			if err != nil {
				bad++
				if bad <= 4 {
					t.Logf("seed %d kind %s: %v\n%s", seed, kind, err, src)
				}
			}
		}
	}
	t.Logf("%d of 600 generated programs rejected", bad)
	t.Log(genProgram(7, "leak", 5))
}
