package harness

// C17 clause (e): free of data races. Decided by Go's race detector on the
// same instrumented binary in free mode (DESIGN §1.6): no cooperative
// scheduler, real sync, real parallel goroutines inside a synctest bubble,
// yields injected by Step() from the runtime's per-thread generator. The
// schedule is not controlled; a replay is "rerun until the report recurs".

import (
	"encoding/json"
	"fmt"
	"os"
	"os/exec"
	"regexp"
	"runtime"
	"sort"
	"strings"
	"sync"
	"testing"
	"time"

	rt "github.com/smarthome-go/homescript/v3/homescript/runtime"
	"verif.local/simrt"
)

// freeRunTimeout: real-time bound of one free-mode run (they take milliseconds).
const freeRunTimeout = 40 * time.Second

// blockedSites names the product functions in which goroutines are blocked on a lock or channel.
func blockedSites(dump string) string {
	set := map[string]bool{}
	for _, blk := range strings.Split(dump, "\n\n") {
		head, _, _ := strings.Cut(blk, "\n")
		if !strings.Contains(head, "sync.") && !strings.Contains(head, "semacquire") && !strings.Contains(head, "chan ") {
			continue
		}
		for _, ln := range strings.Split(blk, "\n") {
			if mm := raceFrame.FindStringSubmatch("  " + ln); mm != nil {
				set[shortFn(mm[1])] = true
				break
			}
		}
	}
	var out []string
	for k := range set {
		out = append(out, k)
	}
	sort.Strings(out)
	return strings.Join(out, ",")
}

// raceBin is the -race build of this test binary (set from the job).
var raceBin string

type freeResult struct {
	Idx   int    `json:"idx"`
	Class string `json:"class,omitempty"`
	Msg   string `json:"msg,omitempty"`
	Sig   string `json:"sig,omitempty"`
}

// c17FreeWorkload: scalar/string globals and prints from n cores.
func c17FreeWorkload(spec RunSpec) c17Model {
	n := spec.P("n", 4)
	iters := spec.P("iters", 30)
	m := c17Model{lines: map[string]int{}}
	var b strings.Builder
	b.WriteString("let g = 0;\nlet h = \"x\";\nlet k = 1.5;\nlet ro = 7;\nlet ro_s = \"never reassigned\";\n")
	fmt.Fprintf(&b, `fn gw(id: int, n: int) {
    let acc = 0;
    for i in 0..n {
        g = g + 1;
        h = "w";
        if g < 0 { println("negative"); }
        k = k + 0.5;
        acc = acc + g %% 3 + ro;
        if ro_s == "x" { acc = acc + 1; }
    }
    println("gw", id, "done");
}
`)
	b.WriteString("fn main() {\n")
	for i := 0; i < n; i++ {
		fmt.Fprintf(&b, "    spawn gw(%d, %d);\n", i, iters)
		f := fmt.Sprintf("gw %d done", i)
		m.lines[f]++
		m.finals = append(m.finals, f)
	}
	b.WriteString("    g = g + 100;\n    h = \"m\";\n    println(\"main done\");\n}\n")
	m.lines["main done"]++
	m.prog = Single(b.String())
	return m
}

// c17FreeSharedWorkload: a list and an object held in globals are used by n cores through the global
// (push, len, index read, member assignment): "accesses to globals from several cores".
func c17FreeSharedWorkload(spec RunSpec) c17Model {
	n := spec.P("n", 4)
	iters := spec.P("iters", 30)
	m := c17Model{lines: map[string]int{}}
	var b strings.Builder
	b.WriteString("let l = [0];\nlet o = new { n: 0, s: \"x\" };\n")
	switch spec.P("shared", 1) {
	case 1: // list: push / len / index
		b.WriteString(`fn sw(id: int, n: int) {
    let acc = 0;
    for i in 0..n {
        l.push(i);
        acc = acc + l.len() + l[0];
    }
    println("sw", id, "done");
}
`)
	case 2: // object: member write / read
		b.WriteString(`fn sw(id: int, n: int) {
    let acc = 0;
    for i in 0..n {
        o.n = o.n + 1;
        o.s = "w";
        acc = acc + o.n;
    }
    println("sw", id, "done");
}
`)
	default: // readers only: nothing is modified after the spawns
		b.WriteString(`fn sw(id: int, n: int) {
    let acc = 0;
    for i in 0..n {
        acc = acc + l.len() + l[0] + o.n;
        for v in l { acc = acc + v; }
    }
    println("sw", id, "done");
}
`)
	}
	b.WriteString("fn main() {\n")
	for i := 0; i < n; i++ {
		fmt.Fprintf(&b, "    spawn sw(%d, %d);\n", i, iters)
		f := fmt.Sprintf("sw %d done", i)
		m.lines[f]++
		m.finals = append(m.finals, f)
	}
	b.WriteString("    println(\"main done\");\n}\n")
	m.lines["main done"]++
	m.prog = Single(b.String())
	return m
}

// c17FreeFatalWorkload: one worker fails while the others (which loop until cancelled) are stopped by the
// fatal interrupt: the termination paths of several cores run at the same time.
func c17FreeFatalWorkload(spec RunSpec) Program {
	n := spec.P("n", 4)
	var b strings.Builder
	b.WriteString("let g = 0;\n")
	b.WriteString("fn lp(id: int) { loop { g = g + 1; } }\n")
	b.WriteString("fn sl(id: int) { loop { time.sleep(0.01); } }\n")
	fmt.Fprintf(&b, "fn bad(id: int) { let c = 0; while c < %d { c = c + 1; } throw(\"boom\"); }\n", 50+spec.P("iters", 30)*10)
	b.WriteString("fn main() {\n")
	for i := 0; i < n; i++ {
		if i%2 == 0 {
			fmt.Fprintf(&b, "    spawn lp(%d);\n", i)
		} else {
			fmt.Fprintf(&b, "    spawn sl(%d);\n", i)
		}
	}
	b.WriteString("    spawn bad(99);\n    loop { g = g + 1; }\n}\n")
	return Single(b.String())
}

// runC17FreeHere executes one free-mode run in this process (the -race binary).
func runC17FreeHere(t *testing.T, spec RunSpec) *Verdict {
	const P = "C17"
	v := &Verdict{}
	m := c17FreeWorkload(spec)
	if spec.P("shared", 0) > 0 {
		m = c17FreeSharedWorkload(spec)
	}
	fatal := spec.P("fatal", 0) == 1
	if fatal {
		m = c17Model{prog: c17FreeFatalWorkload(spec), lines: map[string]int{}}
	}
	if fs := spec.P("free_shape", -1); fs >= 0 {
		// one of the shapes of the cooperative runs (spawn arguments, nested spawns, spawn loops, own globals,
		// many arities, partial last lines) executed by real parallel goroutines under the race detector
		ss := spec.clone()
		ss.Params["shape"] = fs
		m = c17Workload(ss)
	}
	prog, err := MustCompile(m.prog)
	if err != nil {
		v.fail(P, "infra", "", "", "free workload does not compile: "+err.Error())
		return v
	}
	if g := spec.P("gomaxprocs", 4); g > 0 {
		runtime.GOMAXPROCS(g)
	}
	env := newVMEnv(prog, generousLimits)
	env.out.mu = &sync.Mutex{}
	var got outcome
	pmsg := simrt.RunFree(t, spec.Seed, func() {
		env.boot()
		env.vm.SpawnAsync(rt.MainFn(), nil, nil, nil)
		num, i := env.vm.Wait()
		got = classify(num, i)
	})
	if pmsg != "" && !strings.Contains(pmsg, "blocked goroutines remain") && !strings.Contains(pmsg, "deadlock") {
		v.fail(P, "host-crash", "no-host-crash", "free:"+panicCategoryH(pmsg), "free-mode run panicked: "+pmsg)
		return v
	}
	if fatal {
		if got.Kind != "fatal:UncaughtThrow" {
			v.fail(P, "wrong-result", "wait-result", "free-fatal:"+got.Kind, "free-mode run with a failing worker: Wait returned "+got.Kind+" "+firstLine(got.Msg))
		}
		// give the cancelled cores a moment to run their termination paths under the race detector
		time.Sleep(30 * time.Millisecond)
		return v
	}
	if got.Kind != "completed" {
		v.fail(P, "wrong-result", "wait-result", "free:"+got.Kind, "free-mode run: Wait returned "+got.Kind+" "+firstLine(got.Msg))
		return v
	}
	got2 := env.out.Lines()
	if m.chunked {
		got2 = env.out.Texts()
	}
	if d := diffMultiset(multiset(got2), m.lines); d != "" {
		v.fail(P, "wrong-result", "output-multiset", "free", "free-mode run: output differs from the model: "+d)
	}
	return v
}

var raceFrame = regexp.MustCompile(`^\s+(github\.com/smarthome-go/homescript/v3/homescript/[^\s(]+(?:\([^)]*\))?[^\s(]*)\(`)

// parseRaces extracts data-race reports between the markers of each spec.
func parseRaces(log string) map[int][]string {
	out := map[int][]string{}
	cur := -1
	lines := strings.Split(log, "\n")
	for i := 0; i < len(lines); i++ {
		ln := lines[i]
		if strings.HasPrefix(ln, "SIMCHECK-FREE-BEGIN ") {
			fmt.Sscanf(ln, "SIMCHECK-FREE-BEGIN %d", &cur)
			continue
		}
		if !strings.HasPrefix(ln, "WARNING: DATA RACE") {
			continue
		}
		var sites []string
		section := 0
		for j := i + 1; j < len(lines) && !strings.HasPrefix(lines[j], "=================="); j++ {
			l := lines[j]
			if strings.HasPrefix(l, "Write at") || strings.HasPrefix(l, "Read at") || strings.HasPrefix(l, "Previous ") {
				section++
				continue
			}
			if strings.HasPrefix(l, "Goroutine ") {
				break
			}
			if section > len(sites) {
				if mm := raceFrame.FindStringSubmatch(l); mm != nil {
					sites = append(sites, shortFn(mm[1]))
				}
			}
			i = j
		}
		sort.Strings(sites)
		if len(sites) == 0 {
			sites = []string{"(no frame of the repository in the report)"}
		}
		out[cur] = append(out[cur], strings.Join(sites, " <-> "))
	}
	return out
}

func shortFn(fn string) string {
	return strings.TrimPrefix(fn, "github.com/smarthome-go/homescript/v3/homescript/")
}

// execFree runs a batch of free-mode specs in the -race binary and returns one verdict per spec.
func execFree(specs []RunSpec, dir string, tag string) ([]*Verdict, error) {
	if raceBin == "" {
		return nil, fmt.Errorf("no -race worker binary")
	}
	specFile := fmt.Sprintf("%s/free-%s.json", dir, tag)
	outFile := fmt.Sprintf("%s/free-%s.out.json", dir, tag)
	logFile := fmt.Sprintf("%s/free-%s.log", dir, tag)
	raw, _ := json.Marshal(specs)
	os.WriteFile(specFile, raw, 0o644)
	job := Job{Mode: "free", File: specFile, Out: outFile}
	jraw, _ := json.Marshal(job)
	jobFile := specFile + ".job"
	os.WriteFile(jobFile, jraw, 0o644)
	lf, err := os.Create(logFile)
	if err != nil {
		return nil, err
	}
	cmd := exec.Command(raceBin, "-test.run", "^TestWorker$", "-test.timeout", "0", "-test.count", "1")
	cmd.Env = append(os.Environ(), "SIMCHECK_JOB="+jobFile, "GORACE=halt_on_error=0", "GOMAXPROCS=16")
	cmd.Stdout = lf
	cmd.Stderr = lf
	runErr := cmd.Start()
	if runErr == nil {
		waitCh := make(chan error, 1)
		go func() { waitCh <- cmd.Wait() }()
		select {
		case runErr = <-waitCh:
		case <-time.After(time.Duration(len(specs))*2*time.Second + 3*freeRunTimeout):
			cmd.Process.Kill()
			runErr = fmt.Errorf("free-mode batch killed after its wall-clock budget")
		}
	}
	lf.Close()
	logRaw, _ := os.ReadFile(logFile)
	races := parseRaces(string(logRaw))
	var results []freeResult
	if data, err := os.ReadFile(outFile); err == nil {
		var sum Summary
		if json.Unmarshal(data, &sum) == nil {
			json.Unmarshal([]byte(sum.Hashes["free_results"]), &results)
		}
	}
	if len(results) != len(specs) && len(races) == 0 {
		return nil, fmt.Errorf("free-mode batch failed: %v; log tail: %s", runErr, lastLines(string(logRaw), 15))
	}
	out := make([]*Verdict, len(specs))
	for i := range specs {
		v := &Verdict{Tasks: 3}
		if i < len(results) && results[i].Class != "" {
			v.Class, v.Msg, v.Sig = results[i].Class, results[i].Msg, results[i].Sig
		}
		if rs := races[i]; len(rs) > 0 && v.Class == "" {
			v.fail("C17", "data-race", "race-free", raceCulprit(specs[i], rs), fmt.Sprintf("race detector report(s) in free mode (%s): %v", specs[i].Workload, dedupStr(rs)))
		}
		out[i] = v
	}
	return out, nil
}

// raceCulprit names what raced. Which pair of accesses the detector reports first is up to the real
// schedule, so for the workloads that mutate one compound value from several cores the culprit is the
// *family* of functions involved (the value's own methods); a report that involves any function outside
// that family keeps its own pair as the culprit.
func raceCulprit(spec RunSpec, rs []string) string {
	kind := spec.P("shared", 0)
	if kind == 0 {
		return rs[0]
	}
	name := []string{"", "shared-list", "shared-object", "shared-readers"}[kind]
	fam := [][]string{nil,
		{"runtime/value.ValueList.", "runtime/value.IndexValue"},
		{"runtime.(*Core).runInstruction", "runtime/value.ValueObject."},
		nil}[kind]
	for _, pair := range rs {
		for _, fn := range strings.Split(pair, " <-> ") {
			in := false
			for _, p := range fam {
				in = in || strings.HasPrefix(fn, p)
			}
			if !in {
				return name + ":" + pair
			}
		}
	}
	return name + ":in-place-mutation-through-the-global"
}

func lastLines(s string, n int) string {
	l := strings.Split(strings.TrimRight(s, "\n"), "\n")
	if len(l) > n {
		l = l[len(l)-n:]
	}
	return strings.Join(l, "\n")
}

// workerFree is the "free" job mode (runs inside the -race binary).
func workerFree(t *testing.T, job Job, sum *Summary) {
	raw, err := os.ReadFile(job.File)
	if err != nil {
		sum.Infra = append(sum.Infra, err.Error())
		return
	}
	var specs []RunSpec
	if err := json.Unmarshal(raw, &specs); err != nil {
		sum.Infra = append(sum.Infra, err.Error())
		return
	}
	var results []freeResult
	flush := func() {
		b, _ := json.Marshal(results)
		sum.Hashes = map[string]string{"free_results": string(b)}
	}
	for i, spec := range specs {
		fmt.Fprintf(os.Stderr, "SIMCHECK-FREE-BEGIN %d\n", i)
		done := make(chan *Verdict, 1)
		go func() { done <- runC17FreeHere(t, spec) }()
		var v *Verdict
		select {
		case v = <-done:
		case <-time.After(freeRunTimeout):
			// Real goroutines on real locks: a run that does not finish is a deadlock (or a
			// livelock) of the product under an ordinary schedule. The process is wedged, so
			// this batch ends here; the remaining specs are reported as not run.
			buf := make([]byte, 1<<20)
			n := runtime.Stack(buf, true)
			sites := blockedSites(string(buf[:n]))
			v = &Verdict{}
			v.fail("C17", "deadlock", "no-deadlock", "free:"+sites, fmt.Sprintf("free-mode run (real goroutines, real locks) did not finish within %v of real time; goroutines blocked in: %s", freeRunTimeout, sites))
			results = append(results, freeResult{Idx: i, Class: v.Class, Msg: v.Msg, Sig: v.Sig})
			for j := i + 1; j < len(specs); j++ {
				results = append(results, freeResult{Idx: j})
			}
			sum.Runs++
			flush()
			sum.WallS = 0
			out, _ := json.Marshal(sum)
			os.WriteFile(job.Out, out, 0o644)
			os.Exit(0)
		}
		fmt.Fprintf(os.Stderr, "SIMCHECK-FREE-END %d\n", i)
		results = append(results, freeResult{Idx: i, Class: v.Class, Msg: v.Msg, Sig: v.Sig})
		sum.Runs++
	}
	flush()
}
