package harness

import (
	"fmt"
	"sort"
	"strings"
	"sync"

	hms "github.com/smarthome-go/homescript/v3/homescript"
	"github.com/smarthome-go/homescript/v3/homescript/analyzer"
	herrors "github.com/smarthome-go/homescript/v3/homescript/errors"
	"github.com/smarthome-go/homescript/v3/homescript/analyzer/ast"
	"github.com/smarthome-go/homescript/v3/homescript/compiler"
	"github.com/smarthome-go/homescript/v3/homescript/diagnostic"
)

// Program is a set of module sources; Entry names the entry module.
type Program struct {
	Entry   string
	Modules map[string]string
}

func Single(src string) Program {
	return Program{Entry: "main", Modules: map[string]string{"main": src}}
}

type Analyzed struct {
	Modules  map[string]ast.AnalyzedProgram
	Diags    []string // canonical multiset of diagnostics (level|message|span), sorted
	Errors   int
	Syntax   []string
	PanicMsg string
}

var errorLevel = int(diagnostic.DiagnosticLevelError)

func diagString(d diagnostic.Diagnostic) string {
	s := fmt.Sprintf("%d|%s|%s:%d:%d-%d:%d", d.Level, d.Message, d.Span.Filename, d.Span.Start.Line, d.Span.Start.Column, d.Span.End.Line, d.Span.End.Column)
	for _, n := range d.Notes { // the notes are part of what the user is shown
		s += "|note: " + strings.ReplaceAll(n, "\n", " ")
	}
	return s
}

// Analyze runs the real lexer, parser and analyzer against the simulated host.
func Analyze(p Program, prov Provider) (a Analyzed) {
	defer func() {
		if r := recover(); r != nil {
			a.PanicMsg = fmt.Sprint(r)
		}
	}()
	adds := hms.TestingAnalyzerScopeAdditions()
	adds["tick"] = analyzer.NewBuiltinVar(ast.NewFunctionType(
		ast.NewVarArgsFunctionTypeParamKind([]ast.Type{}, ast.NewUnknownType()),
		herrors.Span{}, ast.NewNullType(herrors.Span{}), herrors.Span{}))
	mods, diags, syn := hms.Analyze(
		hms.InputProgram{ProgramText: p.Modules[p.Entry], Filename: p.Entry},
		adds, prov, true)
	a.Modules = mods
	for _, d := range diags {
		a.Diags = append(a.Diags, diagString(d))
		if d.Level == diagnostic.DiagnosticLevelError {
			a.Errors++
		}
	}
	sort.Strings(a.Diags)
	for _, s := range syn {
		a.Syntax = append(a.Syntax, fmt.Sprintf("%s|%d:%d", s.Message, s.Span.Start.Line, s.Span.Start.Column))
	}
	sort.Strings(a.Syntax)
	return a
}

// Compile compiles analyzed modules with the real compiler.
func Compile(a Analyzed, entry string) (out compiler.CompileOutput, err error) {
	defer func() {
		if r := recover(); r != nil {
			err = fmt.Errorf("compiler panic: %v", r)
		}
	}()
	c := compiler.NewCompiler(a.Modules, entry)
	return c.Compile()
}

// ---- cache of programs compiled outside any simulation (sorted map order) ----

type compiled struct {
	an  Analyzed
	out compiler.CompileOutput
	err error
}

var (
	compMu    sync.Mutex
	compCache = map[string]*compiled{}
)

func progKey(p Program) string {
	var names []string
	for n := range p.Modules {
		names = append(names, n)
	}
	sort.Strings(names)
	var b strings.Builder
	b.WriteString(p.Entry)
	for _, n := range names {
		b.WriteString("\x00" + n + "\x00" + p.Modules[n])
	}
	return b.String()
}

// MustCompile analyses and compiles a workload program (cached). A workload
// that does not compile is a harness bug or a tree that rejects valid
// programs; it is reported as INFRA by the caller.
func MustCompile(p Program) (*compiled, error) {
	compMu.Lock()
	defer compMu.Unlock()
	k := progKey(p)
	if c, ok := compCache[k]; ok {
		return c, c.err
	}
	if len(compCache) > 4000 {
		compCache = map[string]*compiled{} // generated programs: bound the memory of a long-running worker
	}
	c := &compiled{}
	c.an = Analyze(p, NewProvider(p.Modules))
	switch {
	case c.an.PanicMsg != "":
		c.err = fmt.Errorf("analyzer panic: %s", c.an.PanicMsg)
	case len(c.an.Syntax) > 0:
		c.err = fmt.Errorf("syntax errors: %v", c.an.Syntax)
	case c.an.Errors > 0:
		c.err = fmt.Errorf("diagnostics: %v", c.an.Diags)
	default:
		c.out, c.err = Compile(c.an, p.Entry)
	}
	compCache[k] = c
	return c, c.err
}
