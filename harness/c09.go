package harness

// C09 — configured resource limits are enforced as interrupts.
//
// A limit is the allocator saying "no" at a chosen point. Sweeping a limit
// from 1 to the program's measured peak demand places that refusal at every
// point of the execution where the resource grows.

import (
	"context"
	"fmt"
	"strconv"
	"strings"
	"testing"
	"time"

	hms "github.com/smarthome-go/homescript/v3/homescript"
	herrors "github.com/smarthome-go/homescript/v3/homescript/errors"
	ivalue "github.com/smarthome-go/homescript/v3/homescript/interpreter/value"
	"github.com/smarthome-go/homescript/v3/homescript/runtime"
	"github.com/smarthome-go/homescript/v3/homescript/runtime/value"
	"verif.local/simrt"
)

func init() {
	runners["C09"] = runC09
	planners["C09"] = planC09
	shrinkers["C09"] = func(s RunSpec) []RunSpec {
		return genericShrink(s, map[string]int{"d": 1}, nil)
	}
}

type c09Family struct {
	name    string
	gen     func(d int) string
	multi   bool // spawns
	inTry   bool // a catch block exists that must not catch the limit error
	leak    bool // iteration workload: per-iteration resource levels must be constant
	multiWide bool // spawns one core whose frame is wide (peak measured on the same function run as entry core)
	interp  bool // also meaningful for the interpreter (call depth only)
	interpOnly bool
	depthOf func(d int) int // interpreter call depth as a function of d (model)
	seeded  bool            // generated from Params["g"] (see gen.go); gen is ignored
}

// c09Program splits a workload text into modules at lines `//// module <name>` (the part before the first
// such line is the entry module).
func c09Program(src string) Program {
	p := Program{Entry: "main", Modules: map[string]string{}}
	name := "main"
	entry := ""
	var b strings.Builder
	for _, ln := range strings.SplitAfter(src, "\n") {
		if strings.HasPrefix(ln, "//// entry ") {
			// the entry module is called something other than `main`
			entry = strings.TrimSpace(strings.TrimPrefix(ln, "//// entry "))
			continue
		}
		if strings.HasPrefix(ln, "//// module ") {
			p.Modules[name] = b.String()
			b.Reset()
			name = strings.TrimSpace(strings.TrimPrefix(ln, "//// module "))
			continue
		}
		b.WriteString(ln)
	}
	p.Modules[name] = b.String()
	if entry != "" {
		p.Modules[entry] = p.Modules["main"]
		delete(p.Modules, "main")
		p.Entry = entry
	}
	return p
}

func (f c09Family) source(spec RunSpec, d int) string {
	if f.seeded {
		return genProgram(uint64(spec.P("g", 1)), "leak", d)
	}
	return f.gen(d)
}

func nest(e int) string {
	var b strings.Builder
	for i := 0; i < e; i++ {
		b.WriteString("1 + (")
	}
	b.WriteString("1")
	b.WriteString(strings.Repeat(")", e))
	return b.String()
}

var c09Families = []c09Family{
	{name: "recursion", interp: true, depthOf: func(d int) int { return d + 1 }, gen: func(d int) string {
		return fmt.Sprintf(`fn r(n: int) -> int { if n == 0 { 0 } else { 1 + r(n - 1) } }
fn main() { println("r", r(%d)); }`, d)
	}},
	{name: "nest-entry", gen: func(d int) string {
		return fmt.Sprintf("fn main() { let x = %s; println(\"x\", x); }", nest(d))
	}},
	{name: "nest-callee", gen: func(d int) string {
		return fmt.Sprintf("fn f() -> int { %s }\nfn main() { println(\"x\", f()); }", nest(d))
	}},
	{name: "locals", interp: true, depthOf: func(d int) int { return d + 1 }, gen: func(d int) string {
		return fmt.Sprintf(`fn r(n: int) -> int {
    let a = n; let b = a + 1; let c = b + 1; let e = c + 1; let f = e + 1; let g = f + 1;
    if n == 0 { g } else { r(n - 1) + a + b + c + e + f + g - a - b - c - e - f - g }
}
fn main() { println("r", r(%d)); }`, d)
	}},
	{name: "recursion-in-try", inTry: true, interp: true, depthOf: func(d int) int { return d + 1 }, gen: func(d int) string {
		return fmt.Sprintf(`fn r(n: int) -> int { if n == 0 { 0 } else { 1 + r(n - 1) } }
fn main() { try { println("r", r(%d)); } catch e { println("caught"); } println("after"); }`, d)
	}},
	{name: "nest-in-try", inTry: true, gen: func(d int) string {
		return fmt.Sprintf("fn main() { try { let x = %s; println(\"x\", x); } catch e { println(\"caught\"); } println(\"after\"); }", nest(d))
	}},
	{name: "spawned-overflow", multi: true, gen: func(d int) string {
		return fmt.Sprintf(`let g = 0;
fn r(n: int) -> int { if n == 0 { 0 } else { 1 + r(n - 1) } }
fn w(n: int) { println("w", r(n)); }
fn main() { spawn w(%d); let c = 0; while c < 400 { c = c + 1; g = g + 1; } println("main done"); }`, d)
	}},
	{name: "wide-frame", gen: func(d int) string {
		var b strings.Builder
		b.WriteString("fn wide(n: int) -> int {\n")
		for i := 0; i < d; i++ {
			fmt.Fprintf(&b, "    let v%d = n + %d;\n", i, i)
		}
		b.WriteString("    v0")
		for i := 1; i < d; i += 7 {
			fmt.Fprintf(&b, " + v%d", i)
		}
		b.WriteString("\n}\nfn main() { println(\"w\", wide(1)); }")
		return b.String()
	}},
	{name: "wide-frame-spawned", multiWide: true, gen: func(d int) string {
		var b strings.Builder
		b.WriteString("fn wide(n: int) {\n")
		for i := 0; i < d; i++ {
			fmt.Fprintf(&b, "    let v%d = n + %d;\n", i, i)
		}
		fmt.Fprintf(&b, "    println(\"w\", v0 + v%d);\n}\nfn main() { spawn wide(1); println(\"main done\"); }", d-1)
		return b.String()
	}},
	{name: "gen-leak", leak: true, seeded: true},
	{name: "recursion-via-value", interp: true, depthOf: func(d int) int { return d + 1 }, gen: func(d int) string {
		return fmt.Sprintf(`fn r(n: int) -> int { let f = r; if n == 0 { 0 } else { 1 + f(n - 1) } }
fn main() { println("r", r(%d)); }`, d)
	}},
	// a function literal that calls itself through a global (no named function in the cycle)
	{name: "closure-recursion-via-global", interp: true, depthOf: func(d int) int { return d + 1 }, gen: func(d int) string {
		return fmt.Sprintf(`let me: ?fn() -> null = none;
let depth = 0;
fn main() {
    me = ?fn() -> null { if depth > 0 { depth = depth - 1; let f = me.unwrap(); f(); } };
    depth = %d;
    let g = me.unwrap();
    g();
    println("r", depth);
}`, d)
	}},
	{name: "mutual-recursion", interp: true, depthOf: func(d int) int { return d + 1 }, gen: func(d int) string {
		return fmt.Sprintf(`fn a(n: int) -> int { if n == 0 { 0 } else { 1 + b(n - 1) } }
fn b(n: int) -> int { if n == 0 { 0 } else { 1 + a(n - 1) } }
fn main() { println("r", a(%d)); }`, d)
	}},
	// a long quiet phase before the limit is exceeded: the overshoot bound must not depend on how long
	// (or how uneventfully) the program has been running
	{name: "warmup-then-recursion", interp: true, depthOf: func(d int) int { return d + 1 }, gen: func(d int) string {
		return fmt.Sprintf(`fn r(n: int) -> int { if n == 0 { 0 } else { 1 + r(n - 1) } }
fn main() { let a = 0; for i in 0..9000 { a = (a + i) %% 7; } println("r", r(%d), a); }`, d)
	}},
	{name: "warmup-then-nest", gen: func(d int) string {
		return fmt.Sprintf(`fn f() -> int { %s }
fn main() { let a = 0; let i = 0; while i < 9000 { i = i + 1; a = (a + i) %% 5; } println("x", f(), a); }`, nest(d))
	}},
	// recursion that alternates between two modules (the way back goes through a function value):
	// the call depth is the program's, not a module's
	{name: "recursion-across-modules", interp: true, depthOf: func(d int) int { return 2*d + 2 }, gen: func(d int) string {
		return fmt.Sprintf(`import { pong } from lib;
let depth = 0;
fn ping() { if depth > 0 { depth = depth - 1; pong(ping); } }
fn main() { depth = %d; ping(); println("r", depth); }
//// module lib
pub fn pong(back: fn() -> null) { back(); }
fn main() {}
`, d)
	}},
	// threads: a core's call depth is its own (not its spawner's, not its ancestors')
	{name: "spawn-relay", gen: func(d int) string {
		return fmt.Sprintf(`fn relay(n: int) { if n > 0 { spawn relay(n - 1); } else { println("relay done"); } }
fn main() { spawn relay(%d); println("main done"); }`, d)
	}},
	{name: "spawn-from-deep-recursion", gen: func(d int) string {
		return fmt.Sprintf(`fn r(n: int) -> int { if n == 0 { 0 } else { 1 + r(n - 1) } }
fn worker(n: int) { println("worker", r(n)); }
fn deep(n: int) -> int { if n == 0 { spawn worker(%d); 0 } else { 1 + deep(n - 1) } }
fn main() { println("deep", deep(%d)); }`, d/2, d)
	}},
	// names: the stack trace of the limit error has to cope with whatever the host and the script are called
	{name: "recursion-long-names", interp: true, depthOf: func(d int) int { return d + 1 }, gen: func(d int) string {
		long := "measure_the_temperature_in_every_room_of_the_house_and_report_it"
		return fmt.Sprintf(`fn %s(n: int) -> int { if n == 0 { 0 } else { 1 + %s(n - 1) } }
fn main() { println("r", %s(%d)); }
//// entry größenprüfung_küche_süd_und_wohnzimmer_nord_temperaturüberwachung`, long, long, long, d)
	}},
	{name: "loop-calls", leak: true, interp: true, depthOf: func(d int) int { return 4 }, gen: func(d int) string {
		return fmt.Sprintf(`fn c3(x: int) -> int { let t = [x, x + 1]; t[0] + t[1] }
fn c2(x: int) -> int { let y = c3(x); y + 1 }
fn c1(x: int) -> int { c2(x) + c2(x + 1) }
fn main() { let acc = 0; for i in 0..%d { acc = acc + c1(i) %% 7; tick(); } println("acc", acc); }`, d)
	}},
	{name: "loop-exits", leak: true, interp: true, depthOf: func(d int) int { return 3 }, gen: func(d int) string {
		return fmt.Sprintf(`fn pick(i: int) -> int {
    let k = 0;
    while true {
        k = k + 1;
        if k > 3 {
            match i %% 3 {
                0 => { return k; },
                1 => { break; },
                _ => { if k > 5 { return k + i; } else { continue; } },
            }
        }
    }
    k * 2
}
fn thrower(i: int) -> int { try { if i %% 2 == 0 { throw("t"); } i } catch e { 0 - i } }
fn main() {
    let acc = 0;
    for i in 0..%d {
        loop {
            let tmp = [i, i];
            if tmp[0] == i { break; }
        }
        acc = acc + pick(i) + thrower(i);
        tick();
    }
    println("acc", acc);
}`, d)
	}},
}

// interpOnly: the construct is only exercised on the interpreter (on the VM an exception that unwinds
// across a call inside a loop is a known defect outside the claimed properties).
func interpOnly(f c09Family) c09Family { f.interpOnly = true; return f }

// Leak probes: one construct per family, executed once per iteration around
// tick(); the signature of a leak names the construct.
func leakFamily(name, helpers, body string) c09Family {
	return c09Family{name: "leak-" + name, leak: true, interp: true, depthOf: func(int) int { return 6 }, gen: func(d int) string {
		return fmt.Sprintf("%s\nfn main() { let y = 0; for i in 0..%d { %s tick(); } println(\"y\", y); }", helpers, d, body)
	}}
}

func init() {
	c09Families = append(c09Families,
		leakFamily("match-default", "", `match i % 3 { 0 => { y = 1; }, _ => { y = 2; } }`),
		leakFamily("match-value", "", `y = match i % 3 { 0 => { 1 }, 1 => { 2 }, _ => { 3 } };`),
		leakFamily("match-return", "fn pick(i: int) -> int { match i % 3 { 0 => { return 1; }, 1 => { 5 }, _ => { return 2; } } }", `y = pick(i);`),
		leakFamily("for-break", "", `for j in 0..10 { if j == 3 { break; } y = y + 1; }`),
		leakFamily("for-continue", "", `for j in 0..5 { if j % 2 == 0 { continue; } y = y + j; }`),
		leakFamily("nested-for-break", "", `for j in 0..4 { for k in 0..4 { if k == 2 { break; } y = y + 1; } if j == 2 { break; } }`),
		leakFamily("while-break", "", `let k = 0; while true { k = k + 1; if k > 3 { break; } }`),
		leakFamily("loop-break-continue", "", `let k = 0; loop { k = k + 1; if k < 3 { continue; } break; }`),
		leakFamily("call-result-unused", "fn f(x: int) -> int { x + 1 }", `f(i);`),
		leakFamily("if-value-unused", "", `if i % 2 == 0 { 1 } else { 2 };`),
		leakFamily("block-value-unused", "", `{ 1 + i };`),
		leakFamily("try-value", "", `y = try { i } catch e { 0 };`),
		leakFamily("try-throw-same-frame", "", `try { if i % 2 == 0 { throw("t"); } y = y + 1; } catch e { y = y - 1; }`),
		leakFamily("return-in-for", "fn pick(n: int) -> int { for i in 0..10 { if i == n % 10 { return i; } } 0 }", `y = pick(i);`),
		leakFamily("return-in-try", "fn pick(n: int) -> int { try { if n % 2 == 0 { return n; } throw(\"x\"); } catch e { return 0 - n; } }", `y = pick(i);`),
		leakFamily("method-result-unused", "", `i.to_string();`),
		leakFamily("list-temporaries", "", `let l = [i, i + 1, i + 2]; y = l[0] + l.len();`),
		leakFamily("spawn-in-loop", "fn w(x: int) { let z = x + 1; }", `spawn w(i);`),
		leakFamily("throw-after-return-in-try", "fn h(p: int) -> int { try { if p % 2 == 0 { return 1; } } catch e { } 2 }", `try { y = y + h(i); if i % 3 == 0 { throw("t"); } y = y + 1; } catch e2 { y = y + 10; }`),
		leakFamily("throw-after-break-in-try", "", `try { let k = 0; loop { k = k + 1; try { if k > 1 { break; } } catch e { y = 0; } } if i % 2 == 0 { throw("t"); } } catch e3 { y = y + 1; }`),
		leakFamily("throw-after-continue-in-try", "", `try { for j in 0..3 { try { if j == 1 { continue; } y = y + 1; } catch e { y = 0; } } throw("t"); } catch e4 { y = y + 1; }`),
		leakFamily("spawn-result-in-let", "fn w(x: int) { let z = x + 1; }", `let h = spawn w(i);`),
		leakFamily("throw-out-of-for-in-try", "", `try { for j in 0..5 { if j == 2 { throw("t"); } y = y + 1; } } catch e { y = y + 1; }`),
		leakFamily("throw-out-of-nested-for-in-try", "", `try { for j in [1, 2, 3] { for k in "ab" { if j == 2 { throw("t"); } } } } catch e { y = y + 1; }`),
		leakFamily("catch-breaks-loop", "", `let k = 0; loop { k = k + 1; try { if k > 1 { throw("t"); } } catch e { break; } }`),
		leakFamily("index-assign", "", `let l = [1, 2, 3]; l[1] = i; l[0] += l[1]; y = y + l[0];`),
		leakFamily("compound-assign-call", "fn f(x: int) -> int { x + 1 }", `y += f(i); y -= f(1); y *= 1;`),
		leakFamily("string-members-unused", "", `"a,b,c".split(","); "abc".len(); i.to_string().len();`),
		leakFamily("return-in-for-in-for", "fn pick(n: int) -> int { for a in 0..4 { for b in [1, 2, 3] { if a + b == n % 6 { return a * b; } } } 0 }", `y = y + pick(i);`),
		leakFamily("for-list-continue", "", `for e in [1, 2, 3, 4] { if e % 2 == 0 { continue; } y = y + e; }`),
		leakFamily("for-string", "", `for ch in "abc" { if ch == "b" { continue; } y = y + 1; }`),
		leakFamily("while-break-nested-block", "", `let k = 0; while k < 5 { k = k + 1; { let t = k * 2; if t > 4 { break; } } }`),
		leakFamily("return-in-for-in-match", "fn pick(n: int) -> int { match n % 2 { 0 => { for j in 0..5 { if j == 2 { return j; } } 9 }, _ => { 7 } } }", `y = pick(i);`),
		leakFamily("if-value-in-expression", "", `y = y + if i % 2 == 0 { 1 } else { 2 };`),
		leakFamily("try-catch-taken-value", "", `y = try { if i % 2 == 0 { throw("x"); } 1 } catch e { 2 };`),
		leakFamily("builtin-many-args", "", `let s = fmt("%d %d %d %d", i, i + 1, i + 2, i + 3); if s.len() > 100 { y = 1; }`),
		leakFamily("nested-calls-args", "fn add3(a: int, b: int, c: int) -> int { a + b + c }", `y = add3(add3(i, 1, 2), add3(3, i, 4), add3(5, 6, i));`),
		leakFamily("continue-in-match-in-loop", "", `let k = 0; while k < 4 { k = k + 1; match k { 2 => { continue; }, _ => { y = y + 1; } } }`),
		leakFamily("break-in-try-in-loop", "", `let k = 0; loop { k = k + 1; try { if k > 2 { break; } } catch e { y = 0; } }`),
		leakFamily("object-and-index", "", `let o = new { a: [i, i + 1], b: "s" }; y = o.a[1] + o.b.len();`),
		leakFamily("option-unwrap", "", `let o = ?i; y = o.unwrap_or(0);`),
		leakFamily("retry-loop-in-diverging-if", `fn attempt(i: int) -> int {
    let tries = 0;
    if i % 2 == 0 {
        loop {
            try {
                tries = tries + 1;
                if tries < 2 { throw("not ready"); }
                break;
            } catch e {
                tries = tries + 10;
            }
        }
    } else {
        return 0 - 1;
    }
    100 + tries
}`, `y = y + attempt(i) % 7;`),
		leakFamily("retry-loop-in-diverging-match", `fn attempt2(i: int) -> int {
    let tries = 0;
    match i % 3 {
        0 => { loop { try { tries = tries + 1; if tries < 3 { throw("again"); } break; } catch e { tries = tries + 1; } } },
        1 => { return 5; },
        _ => { throw("never here"); },
    }
    tries
}`, `y = y + attempt2(i * 3 + i % 2) % 7;`),
		leakFamily("bare-return", "fn maybe(i: int) { if i % 2 == 0 { return; } let z = i; if z > 5 { return; } }", `maybe(i); y = y + 1;`),
		leakFamily("bare-return-in-loop", "fn scan(i: int) { for k in 0..4 { if k == i % 4 { return; } } }", `scan(i); y = y + 1;`),
		leakFamily("unused-try-value", "", `try { if i % 2 == 0 { throw("x"); } 1 } catch e { 2 }; y = y + 1;`),
		leakFamily("unused-if-value", "", `if i % 2 == 0 { 1 } else { 2 }; y = y + 1;`),
		leakFamily("unused-match-value", "", `match i % 3 { 0 => { 10 }, 1 => { 11 }, _ => { 12 } }; y = y + 1;`),
		leakFamily("unused-block-value", "", `{ let q = i; q + 1 }; y = y + 1;`),
		leakFamily("unused-nested-try-if", "", `try { if i % 3 == 0 { throw("a"); } if i % 3 == 1 { 5 } else { 6 } } catch e { if i > 2 { 7 } else { 8 } }; y = y + 1;`),
		leakFamily("throw-in-callee-caught", "fn bad5(i: int) -> int { let pad = [i, i]; if pad[0] % 2 == 0 { throw(\"x\"); } i }", `try { y = y + bad5(i); } catch e { y = y + 1; }`),
		leakFamily("throw-two-frames-down-caught", "fn bad6(i: int) -> int { if i % 2 == 0 { throw(\"x\"); } i }\nfn mid6(i: int) -> int { let q = i + 1; bad6(i) + q }", `try { y = y + mid6(i); } catch e { y = y + 1; }`),
		leakFamily("throwing-argument-caught", "fn bad(i: int) -> int { if i % 2 == 0 { throw(\"x\"); } i }\nfn store(x: int) -> int { x }", `y = y + try { store(bad(i)) } catch e { 0 };`),
		interpOnly(leakFamily("throwing-argument-of-closure", "fn bad3(i: int) -> int { if i % 2 == 0 { throw(\"x\"); } i }", `let dbl = fn(x: int) -> int { x * 2 }; y = y + try { dbl(bad3(i)) } catch e { 0 };`)),
		leakFamily("throwing-argument-of-builtin", "fn bad4(i: int) -> str { if i % 2 == 0 { throw(\"x\"); } \"s\" }", `y = y + try { bad4(i).len() + fmt("%s", bad4(i + 1)).len() } catch e { 0 };`),
		leakFamily("throwing-argument-of-method", "fn bad2(i: int) -> str { if i % 2 == 0 { throw(\"x\"); } \"s\" }\nfn keep(a: int, s: str) -> int { a + s.len() }", `y = y + try { keep(i, bad2(i)) } catch e { 0 };`),
		leakFamily("return-before-lambda", "fn pick(i: int) -> int { if i % 2 == 0 { return i; } let f = fn(x: int) -> int { x + 1 }; if i % 3 == 0 { return f(i); } f(i) + 1 }", `y = y + pick(i) % 5;`),
		leakFamily("lambda-made-and-called", "", `let f = fn(x: int) -> int { if x > 3 { return x; } x * 2 }; y = y + f(i % 7) % 5;`),
		leakFamily("return-from-nested-blocks", "fn deepret(i: int) -> int { let a = i; { let b = a + 1; { let c = b + 1; if c % 2 == 0 { return c; } { let d = c + 1; if d % 3 == 0 { return d; } } } } a }", `y = y + deepret(i) % 5;`),
	)
}

type c09Sample struct{ call, stack, mem, handlers int }

type c09Run struct {
	out       outcome
	lines     []string
	returned  bool
	peak      c09Sample // measured on the entry core (reference runs)
	peakAll   c09Sample // max over all cores
	ticks     []c09Sample
	tickSteps []int64 // total steps executed at each tick (both backends): the cost of one iteration must not grow
	treeOut   outcome
	afterStop bool
	unobservable bool // the core's resource fields could not be read (renamed?): peaks unknown
}

// c09Exec runs one program under the given limits.
func c09Exec(t *testing.T, spec RunSpec, src string, backend int, limits runtime.CoreLimits, treeLimit uint, measure bool) (*simrt.Result, *c09Run, error) {
	prog, err := MustCompile(c09Program(src))
	if err != nil {
		return nil, nil, fmt.Errorf("workload does not compile: %v\n%s", err, src)
	}
	rr := &c09Run{}
	out := &Out{}
	ctx := NewCtx()
	cfg := simConfig(spec.Sim)
	if backend == 1 && spec.P("d", 0) >= 2000 {
		cfg.TaskStepBudget = 1_500_000_000 // the interpreter's variable lookup is linear in the call depth
	}
	var cores []*runtime.Core
	if measure && backend == 0 {
		cfg.StepHook = func() {
			for i, c := range cores {
				call, st, mem, hs, ok := coreLevels(c)
				if !ok {
					rr.unobservable = true
					continue
				}
				s := c09Sample{call, st, mem, hs}
				if i == 0 {
					rr.peak = maxSample(rr.peak, s)
				}
				rr.peakAll = maxSample(rr.peakAll, s)
			}
		}
	}
	res := simrt.Run(t, cfg, simSource(spec), func(s *simrt.Sim) {
		s.SetDeadline("run-returns", time.Hour)
		if backend == 0 {
			env := &vmEnv{prog: prog, out: out, ctx: ctx, exec: NewVMExec(out), limits: limits}
			var entry *runtime.Core
			env.tick = func() {
				if sim := simrt.Active(); sim != nil {
					rr.tickSteps = append(rr.tickSteps, sim.CurSteps())
				}
				if call, st, mem, hs, ok := coreLevels(entry); ok {
					rr.ticks = append(rr.ticks, c09Sample{call, st, mem, hs})
				}
			}
			env.boot()
			ctx.OnCancel = func() {}
			entry = env.vm.SpawnAsync(runtime.MainFn(), nil, nil, nil)
			cores = append(cores, entry)
			num, i := env.vm.Wait()
			rr.out = classify(num, i)
			if i != nil {
				// every other core has to stop within the C10 bound
				s.ArmStepBound("after-limit-interrupt", stepBoundAfterStop)
			}
		} else {
			ctxp, _ := ctx.AsContext()
			adds := hms.TestingInterpreterScopeAdditions()
			adds["tick"] = *ivalue.NewValueBuiltinFunction(func(executor ivalue.Executor, cancelCtx *context.Context, span herrors.Span, args ...ivalue.Value) (*ivalue.Value, *ivalue.Interrupt) {
				if sim := simrt.Active(); sim != nil {
					rr.tickSteps = append(rr.tickSteps, sim.CurSteps())
				}
				return ivalue.NewValueNull(), nil
			})
			i := hms.Run(treeLimit, prog.an.Modules, c09Program(src).Entry, TreeExec{Out: out}, adds, ctxp)
			rr.out = classifyTree(i)
		}
		s.ClearDeadline("run-returns")
		rr.returned = true
		rr.lines = out.Lines()
	})
	if !rr.returned {
		rr.lines = out.Lines()
	}
	return res, rr, nil
}

func maxSample(a, b c09Sample) c09Sample {
	if b.call > a.call {
		a.call = b.call
	}
	if b.stack > a.stack {
		a.stack = b.stack
	}
	if b.mem > a.mem {
		a.mem = b.mem
	}
	if b.handlers > a.handlers {
		a.handlers = b.handlers
	}
	return a
}

type c09Ref struct {
	run *c09Run
	err string
}

var c09Refs = map[string]*c09Ref{}

func c09Generous(p c09Sample) runtime.CoreLimits {
	return runtime.CoreLimits{CallStackMaxSize: uint(p.call*2 + 200), StackMaxSize: uint(p.stack*2 + 300), MaxMemorySize: uint(p.mem*2 + 500)}
}

func c09Reference(t *testing.T, fam, d, backend int, gs ...int) *c09Ref {
	g := 0
	if len(gs) > 0 {
		g = gs[0]
	}
	key := fmt.Sprintf("%d/%d/%d/%d", fam, d, backend, g)
	if r, ok := c09Refs[key]; ok {
		return r
	}
	ref := &c09Ref{}
	c09Refs[key] = ref
	f := c09Families[fam]
	if f.multiWide {
		var wf int
		for i, ff := range c09Families {
			if ff.name == "wide-frame" {
				wf = i
			}
		}
		base := c09Reference(t, wf, d, backend)
		if base.err != "" {
			ref.err = base.err
			return ref
		}
		own := c09ReferenceRaw(t, f, d, backend)
		if own.err != "" {
			return own
		}
		own.run.peakAll = maxSample(own.run.peakAll, c09Sample{base.run.peakAll.call + 1, base.run.peakAll.stack + 3, base.run.peakAll.mem + 3, 0})
		*ref = *own
		return ref
	}
	if f.multi {
		// The overflowing core is a spawned one, whose Core the host cannot
		// observe: its demand is that of the same recursion run as entry core.
		base := c09Reference(t, 0, d, backend)
		if base.err != "" {
			ref.err = base.err
			return ref
		}
		own := c09ReferenceRaw(t, f, d, backend)
		if own.err != "" {
			return own
		}
		own.run.peakAll = maxSample(own.run.peakAll, c09Sample{base.run.peakAll.call + 1, base.run.peakAll.stack + 3, base.run.peakAll.mem + 3, 0})
		*ref = *own
		return ref
	}
	*ref = *c09ReferenceRaw(t, f, d, backend, g)
	return ref
}

func c09ReferenceRaw(t *testing.T, f c09Family, d, backend int, gs ...int) *c09Ref {
	ref := &c09Ref{}
	g := 0
	if len(gs) > 0 {
		g = gs[0]
	}
	spec := RunSpec{Property: "C09", Params: map[string]int{"d": d, "backend": backend, "g": g}, Sim: SimParams{StepCostNs: 100}, Choices: &simrt.Sparse{}}
	res, rr, err := c09Exec(t, spec, f.source(spec, d), backend, runtime.CoreLimits{CallStackMaxSize: 20000, StackMaxSize: 50000, MaxMemorySize: 200000}, 20000, true)
	if err != nil {
		ref.err = err.Error()
		return ref
	}
	if res.Outcome != "ok" || !rr.returned {
		ref.err = "reference run: " + res.Outcome + " " + res.Detail
		return ref
	}
	if rr.out.Kind != "completed" {
		ref.err = "reference run did not complete: " + rr.out.Kind + " " + firstLine(rr.out.Msg)
		return ref
	}
	if rr.unobservable && backend == 0 {
		ref.err = "infra: the Core's CallStack/Stack/MemoryPointer fields are not observable: peak demand cannot be measured"
		return ref
	}
	ref.run = rr
	return ref
}

const c09Slack = 64

func runC09(t *testing.T, spec RunSpec) *Verdict {
	const P = "C09"
	v := &Verdict{}
	fam := spec.P("fam", 0)
	d := spec.P("d", 10)
	backend := spec.P("backend", 0)
	f := c09Families[fam]
	cell := f.name + "/" + []string{"vm", "interp"}[backend]
	ref := c09Reference(t, fam, d, backend, spec.P("g", 0))
	if ref.err != "" && f.seeded && strings.Contains(ref.err, "does not compile") {
		// the generator produced a program the analyzer rejects: not a verdict about the product
		v.Probes = map[string]int{"generated-program-rejected": 1}
		return v
	}
	if ref.err != "" {
		// the fault-free run under generous limits must complete: it is within every limit
		if strings.Contains(ref.err, "does not compile") {
			v.fail(P, "infra", "", "", cell+": "+ref.err)
		} else {
			v.fail(P, refClass(ref.err), "within-limits-completes", cell+":reference", "fault-free run under generous limits: "+ref.err)
		}
		return v
	}
	kind := spec.F("kind", 0) // 0 call depth, 1 operand stack, 2 memory
	k := spec.F("k", 1)
	peak := ref.run.peakAll
	limits := c09Generous(peak)
	treeLimit := uint(20000)
	var peakK int
	wantKind := "fatal:StackOverFlow"
	kindName := []string{"call-depth", "operand-stack", "memory"}[kind]
	if backend == 0 {
		switch kind {
		case 0:
			limits.CallStackMaxSize = uint(k)
			peakK = peak.call
		case 1:
			limits.StackMaxSize = uint(k)
			peakK = peak.stack
		case 2:
			limits.MaxMemorySize = uint(k)
			peakK = peak.mem
			wantKind = "fatal:OutOfMemory"
		}
	} else {
		treeLimit = uint(k)
		if spec.P("treelimit_max", 0) == 1 {
			treeLimit = ^uint(0)
		}
		peakK = f.depthOf(d)
	}
	slack := c09Slack
	if backend == 1 {
		slack = 2
	}
	zone := "band"
	if k >= peakK+2 {
		zone = "within"
	} else if k < peakK-slack {
		zone = "exceeded"
	}
	res, rr, err := c09Exec(t, spec, f.source(spec, d), backend, limits, treeLimit, zone != "within" && backend == 0 && !f.multi && !f.multiWide)
	if err != nil {
		v.fail(P, "infra", "", "", err.Error())
		return v
	}
	v.absorb(P, res)
	v.Output = rr.lines
	v.Extra = map[string]any{"source": f.source(spec, d)}
	tag := cell + ":" + kindName + ":" + zone
	if v.Class != "" {
		if v.Class == "host-crash" || v.Class == "runaway" || v.Class == "deadlock" {
			v.Sig = P + "|" + v.Class + "|" + v.Clause + "|" + []string{"vm", "interp"}[backend] + ":" + kindName + ":" + res.Sig
		}
		return v
	}
	if !rr.returned {
		v.fail(P, "infra", "", "", "host did not return")
		return v
	}
	res.Probes["zone-"+zone]++
	if rr.out.Kind != "completed" {
		res.Faults["limit-refused:"+kindName]++
	}
	switch zone {
	case "within":
		// never stopped by the limits: outcome and output equal the reference run's
		if rr.out.Kind != "completed" {
			v.fail(P, "wrong-result", "within-limits-completes", tag+":"+rr.out.Kind, fmt.Sprintf("%s limit %d >= measured peak %d + 2, but the run ended with %s (%s)", kindName, k, peakK, rr.out.Kind, firstLine(rr.out.Msg)))
			return v
		}
		if d := diffMultiset(multiset(rr.lines), multiset(ref.run.lines)); d != "" {
			v.fail(P, "wrong-result", "within-limits-output", tag, "output differs from the reference run: "+d)
			return v
		}
	case "exceeded":
		if rr.out.Kind != wantKind {
			v.fail(P, "wrong-result", "exceeded-limit-interrupt", tag+":"+rr.out.Kind, fmt.Sprintf("%s limit %d < measured peak %d - %d, expected %s, got %s (%s)", kindName, k, peakK, slack, wantKind, rr.out.Kind, firstLine(rr.out.Msg)))
			return v
		}
	default:
		if rr.out.Kind != "completed" && rr.out.Kind != wantKind {
			v.fail(P, "wrong-result", "band-result", tag+":"+rr.out.Kind, fmt.Sprintf("%s limit %d near peak %d: got %s (%s), expected completion or %s", kindName, k, peakK, rr.out.Kind, firstLine(rr.out.Msg), wantKind))
			return v
		}
	}
	// "after a bounded overshoot": however the run ended, the entry core never got further past the
	// configured call-depth / operand-stack limit than the bound (the limits are polled between
	// instruction cycles; the memory limit is checked at the allocation itself and has no overshoot
	// other than the frame being allocated, which is not bounded by a constant)
	if zone != "within" && backend == 0 && kind < 2 && !rr.unobservable && !f.multi && !f.multiWide {
		got := []int{rr.peak.call, rr.peak.stack}[kind]
		res.Probes["overshoot-measured"]++
		if got > k+c09Slack {
			v.fail(P, "wrong-result", "bounded-overshoot", cell+":"+kindName, fmt.Sprintf("%s limit %d: the core reached %d (%d past the limit; bound %d)", kindName, k, got, got-k, c09Slack))
			return v
		}
	}
	if rr.out.Kind != "completed" && f.inTry {
		// the limit error is fatal: the program's catch block must not have run
		for _, l := range rr.lines {
			if l == "caught" || l == "after" {
				v.fail(P, "wrong-result", "limit-error-not-catchable", cell+":"+kindName, fmt.Sprintf("the program continued with %q after exceeding the %s limit", l, kindName))
				return v
			}
		}
	}
	// leak freedom, seen from outside: the work done per iteration does not grow (frames, scopes or
	// handlers that are not returned make every later iteration more expensive)
	if f.leak && rr.out.Kind == "completed" && len(rr.tickSteps) >= 16 {
		n := len(rr.tickSteps)
		q := n / 4
		first := float64(rr.tickSteps[q]-rr.tickSteps[0]) / float64(q)
		last := float64(rr.tickSteps[n-1]-rr.tickSteps[n-1-q]) / float64(q)
		res.Probes["iteration-cost-samples"] += n
		if last > 1.5*first+40 {
			v.fail(P, "wrong-result", "iteration-cost-constant", cell, fmt.Sprintf("the cost of one iteration grows: %.0f steps per iteration in the first quarter of the run, %.0f in the last (%d iterations)", first, last, n))
			return v
		}
	}
	// leak freedom: resource levels sampled once per iteration are constant
	if f.leak && backend == 0 && rr.out.Kind == "completed" && len(rr.ticks) > 1 {
		res.Probes["tick-samples"] += len(rr.ticks)
		first := rr.ticks[0]
		for i, s := range rr.ticks {
			if s.handlers != first.handlers {
				// exception handlers are not one of the three resources C09 speaks about
				res.Probes["handler-stack-grows-per-iteration"]++
				s.handlers = first.handlers
			}
			if s != first {
				v.fail(P, "wrong-result", "leak-free-iterations", cell, fmt.Sprintf("iteration %d: (call depth, operand stack, memory pointer, handlers) = %v, iteration 0 had %v", i, s, first))
				return v
			}
		}
		if len(rr.ticks) != d {
			v.fail(P, "wrong-result", "leak-free-iterations", cell+":ticks", fmt.Sprintf("%d iterations sampled, %d expected", len(rr.ticks), d))
			return v
		}
	}
	return v
}

func planC09(t *testing.T, tier string, seed uint64) ([]RunSpec, error) {
	var plan []RunSpec
	sizes := []int{3, 40, 130}
	if !quick(tier) {
		sizes = []int{1, 3, 10, 40, 90, 130, 260}
	}
	idx := 0
	for fi, f := range c09Families {
		if f.seeded {
			ng := 60
			if !quick(tier) {
				ng = 6000
			}
			for gi := 0; gi < ng; gi++ {
				gs := 1 + int(simrt.Mix(seed, uint64(gi), 0x9e4)%1000000)
				ref := c09Reference(t, fi, 12, 0, gs)
				if ref.err != "" {
					if !strings.Contains(ref.err, "does not compile") {
						plan = append(plan, RunSpec{Property: "C09", Workload: "c09/gen-leak/vm", Params: map[string]int{"fam": fi, "d": 12, "backend": 0, "g": gs}, Fault: map[string]int{"kind": 1, "k": 100000}, Sim: SimParams{StepCostNs: 1000}})
					}
					continue
				}
				pk := ref.run.peakAll
				for _, kk := range [][2]int{{0, pk.call + 2}, {1, pk.stack + 2}, {2, pk.mem + 2}} {
					s := RunSpec{Property: "C09", Workload: "c09/gen-leak/vm", Params: map[string]int{"fam": fi, "d": 12, "backend": 0, "g": gs}, Fault: map[string]int{"kind": kk[0], "k": kk[1]}, Sim: SimParams{StepCostNs: 1000}}
					s.Seed = runSeed(seed, idx)
					idx++
					plan = append(plan, s)
				}
			}
			continue
		}
		fsizes := sizes
		if strings.HasPrefix(f.name, "wide-frame") {
			// one frame larger than anything a core may have allocated up front
			fsizes = append(append([]int{}, sizes...), 320, 700)
		}
		for _, d := range fsizes {
			for backend := 0; backend < 2; backend++ {
				if backend == 1 && !f.interp || backend == 0 && f.interpOnly {
					continue
				}
				dd := d
				if f.leak {
					dd = d * 4 // iterations
					if strings.HasPrefix(f.name, "leak-") && d != sizes[1] {
						continue // one size per construct probe
					}
				}
				ref := c09Reference(t, fi, dd, backend)
				base := RunSpec{Property: "C09", Workload: "c09/" + f.name + "/" + []string{"vm", "interp"}[backend], Params: map[string]int{"fam": fi, "d": dd, "backend": backend}}
				if ref.err != "" {
					s := base.clone()
					s.Sim = SimParams{StepCostNs: 1000}
					plan = append(plan, s)
					continue
				}
				kinds := []int{0, 1, 2}
				if backend == 1 {
					kinds = []int{0}
				}
				for _, kind := range kinds {
					var peakK int
					lo := 1
					if backend == 0 {
						switch kind {
						case 0:
							peakK = ref.run.peakAll.call
						case 1:
							peakK = ref.run.peakAll.stack
						case 2:
							peakK = ref.run.peakAll.mem
						}
					} else {
						peakK = f.depthOf(dd)
					}
					var ks []int
					if strings.HasPrefix(f.name, "leak-") {
						// construct probes only need runs that complete
						ks = []int{peakK + 2, peakK + 3, peakK*2 + 50}
					} else if !quick(tier) && peakK <= 300 {
						for k := lo; k <= peakK+2; k++ {
							ks = append(ks, k)
						}
					} else {
						r := simrt.NewRng(simrt.Mix(seed, uint64(fi), uint64(d), uint64(kind), uint64(backend)))
						set := map[int]bool{}
						for _, k := range []int{1, 2, 3, peakK - c09Slack - 2, peakK - c09Slack - 1, peakK - c09Slack, peakK - 3, peakK - 1, peakK, peakK + 1, peakK + 2, peakK + 3} {
							if k >= lo {
								set[k] = true
							}
						}
						extra := 4
						if !quick(tier) {
							extra = 120
						}
						for j := 0; j < extra; j++ {
							set[lo+r.Intn(peakK+2)] = true
						}
						for k := range set {
							ks = append(ks, k)
						}
						sortInts(ks)
					}
					reps := 1
					if f.multi {
						reps = 4
						if !quick(tier) {
							reps = 60
						}
					}
					for _, k := range ks {
						for r := 0; r < reps; r++ {
							s := base.clone()
							s.Fault = map[string]int{"kind": kind, "k": k}
							s.Sim = swarm(seed, idx)
							if !f.multi {
								s.Sim.Quantum = nil
								s.Sim.ClockJumps = false
							}
							s.Seed = runSeed(seed, idx)
							idx++
							plan = append(plan, s)
						}
					}
				}
			}
		}
	}
	// interpreter: recursion depths and limits in the thousands (a limit the host configures
	// must be the limit that is enforced, also when it is large)
	bigs := []struct{ d, k int }{{9000, 12000}, {9000, 8000}}
	if !quick(tier) {
		bigs = []struct{ d, k int }{{9000, 9003}, {9000, 12000}, {9000, 20000}, {9000, 8000}, {9000, 4000}, {3000, 3003}, {3000, 2500}}
	}
	// the largest limit there is: every program is within it
	for _, d := range []int{3, 60} {
		s := RunSpec{Property: "C09", Workload: "c09/recursion/interp-unlimited", Params: map[string]int{"fam": 0, "d": d, "backend": 1, "treelimit_max": 1}, Fault: map[string]int{"kind": 0, "k": 1 << 40}}
		s.Sim = SimParams{StepCostNs: 100}
		s.Seed = runSeed(seed, idx)
		idx++
		plan = append(plan, s)
	}
	for _, big := range bigs {
		s := RunSpec{Property: "C09", Workload: "c09/recursion/interp-large", Params: map[string]int{"fam": 0, "d": big.d, "backend": 1}, Fault: map[string]int{"kind": 0, "k": big.k}}
		s.Sim = SimParams{StepCostNs: 100}
		s.Seed = runSeed(seed, idx)
		idx++
		plan = append(plan, s)
	}
	return plan, nil
}

func sortInts(a []int) {
	for i := 1; i < len(a); i++ {
		for j := i; j > 0 && a[j] < a[j-1]; j-- {
			a[j], a[j-1] = a[j-1], a[j]
		}
	}
}

var _ = strconv.Itoa
var _ = value.NewValueNull

// refClass maps a failed reference run to a violation class.
func refClass(err string) string {
	switch {
	case strings.Contains(err, "crash"):
		return "host-crash"
	case strings.Contains(err, "deadlock"):
		return "deadlock"
	case strings.Contains(err, "runaway"), strings.Contains(err, "deadline"), strings.Contains(err, "step budget"):
		// (a fault-free run of a workload that is known to end after a few thousand steps used up the
		// simulator's 50 million steps per task: it does not end)
		return "runaway"
	case strings.Contains(err, "infra"):
		return "infra"
	}
	return "wrong-result"
}
