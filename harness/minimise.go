package harness

import (
	"sort"
	"testing"
	"time"

	"verif.local/simrt"
)

const minimiseBudget = 500

// minimiseWall bounds the wall-clock time spent on one violation.
const minimiseWall = 25 * time.Second

// shrinkers propose structurally simpler specs (fewer workers, smaller
// arguments, simpler simulator configuration). Property-specific.
var shrinkers = map[string]func(RunSpec) []RunSpec{}

// Minimise shrinks the choice vector and the spec while the same violation
// signature persists. Returns the minimised spec (with explicit choices), its
// verdict and the number of runs spent. If the recorded vector does not
// reproduce the violation the verdict is an infra verdict (nondeterminism).
func Minimise(t *testing.T, spec RunSpec, v *Verdict) (RunSpec, *Verdict, int) {
	target := v.Sig
	runs := 0
	started := time.Now()
	try := func(s RunSpec) *Verdict {
		if runs >= minimiseBudget || (runs > 3 && time.Since(started) > minimiseWall) {
			runs = minimiseBudget
			return nil
		}
		runs++
		vv := exec1(t, s)
		if vv.Sig == target {
			return vv
		}
		return nil
	}
	withVals := func(base RunSpec, vals []int) RunSpec {
		c := base.clone()
		sp := simrt.ToSparse(vals)
		c.Choices = &sp
		return c
	}
	cur := specWithChoices(spec, v)
	curV := try(cur)
	if curV == nil {
		nv := &Verdict{}
		nv.fail(spec.Property, "infra", "", "", "NONDETERMINISM: recorded choice vector does not reproduce "+target)
		return cur, nv, runs
	}
	vals := append([]int(nil), curV.Choices...)

	reduce := func() {
		// 1. truncate (everything after the prefix becomes default)
		lo, hi := 0, len(vals) // invariant: prefix hi fails
		for lo < hi {
			mid := (lo + hi) / 2
			cand := withVals(cur, vals[:mid])
			if vv := try(cand); vv != nil {
				hi = mid
				curV = vv
			} else {
				lo = mid + 1
			}
			if runs >= minimiseBudget {
				break
			}
		}
		vals = append([]int(nil), vals[:hi]...)
		// 2. ddmin: zero chunks of the non-zero entries
		nz := func() []int {
			var idx []int
			for i, x := range vals {
				if x != 0 {
					idx = append(idx, i)
				}
			}
			return idx
		}
		for chunk := (len(nz()) + 1) / 2; chunk >= 1; chunk /= 2 {
			idx := nz()
			for start := 0; start < len(idx); start += chunk {
				end := start + chunk
				if end > len(idx) {
					end = len(idx)
				}
				cand := append([]int(nil), vals...)
				for _, i := range idx[start:end] {
					cand[i] = 0
				}
				if vv := try(withVals(cur, cand)); vv != nil {
					vals = cand
					curV = vv
				}
				if runs >= minimiseBudget {
					return
				}
			}
			if chunk == 1 {
				break
			}
		}
		// 3. lower the remaining non-zero values
		for _, i := range nz() {
			for vals[i] > 1 {
				cand := append([]int(nil), vals...)
				cand[i] = vals[i] - 1
				if vv := try(withVals(cur, cand)); vv != nil {
					vals = cand
					curV = vv
				} else {
					break
				}
			}
		}
	}
	reduce()
	cur = withVals(cur, vals)

	// 4a. restrict non-default map orders to the sites that were actually permuted
	if cur.Sim.MapPerm && cur.Sim.MapSites == nil && len(curV.MapSites) > 0 {
		c := cur.clone()
		c.Sim.MapSites = siteList(curV.MapSites)
		if vv := try(withVals(c, vals)); vv != nil {
			cur = withVals(c, vals)
			curV = vv
		}
	}
	// 4. structure-aware passes
	if sh := shrinkers[spec.Property]; sh != nil {
		for round := 0; round < 3 && runs < minimiseBudget; round++ {
			improved := false
			for _, cand := range sh(cur) {
				for _, cv := range [][]int{vals, nil} {
					c := withVals(cand, cv)
					if vv := try(c); vv != nil {
						cur = c
						curV = vv
						vals = append([]int(nil), vv.Choices...)
						improved = true
						break
					}
				}
				if runs >= minimiseBudget {
					break
				}
			}
			if !improved {
				break
			}
			reduce()
			cur = withVals(cur, vals)
		}
	}
	// final: trailing zeros carry no information
	for len(vals) > 0 && vals[len(vals)-1] == 0 {
		vals = vals[:len(vals)-1]
	}
	cur = withVals(cur, vals)
	if vv := exec1(t, cur); vv.Sig == target {
		curV = vv
	} else {
		// keep the last spec known to fail
		cur = withVals(cur, curV.Choices)
	}
	return cur, curV, runs
}

// genericShrink lowers integer parameters toward the given floors and
// simplifies the simulator configuration.
func genericShrink(spec RunSpec, floors map[string]int, faultFloors map[string]int) []RunSpec {
	var out []RunSpec
	var ks []string
	for k := range spec.Params {
		ks = append(ks, k)
	}
	sort.Strings(ks)
	for _, k := range ks {
		fl, ok := floors[k]
		if !ok {
			continue
		}
		v := spec.Params[k]
		for _, nv := range []int{fl, v / 2, v - 1} {
			if nv >= fl && nv < v {
				c := spec.clone()
				c.Params[k] = nv
				out = append(out, c)
			}
		}
	}
	ks = ks[:0]
	for k := range spec.Fault {
		ks = append(ks, k)
	}
	sort.Strings(ks)
	for _, k := range ks {
		fl, ok := faultFloors[k]
		if !ok {
			continue
		}
		v := spec.Fault[k]
		for _, nv := range []int{fl, v / 2, v - 1} {
			if nv >= fl && nv < v {
				c := spec.clone()
				c.Fault[k] = nv
				out = append(out, c)
			}
		}
	}
	if len(spec.Sim.Quantum) > 0 {
		c := spec.clone()
		c.Sim.Quantum = nil
		out = append(out, c)
	}
	if spec.Sim.ClockJumps {
		c := spec.clone()
		c.Sim.ClockJumps = false
		out = append(out, c)
	}
	if spec.Sim.StepCostNs != 1000 {
		c := spec.clone()
		c.Sim.StepCostNs = 1000
		out = append(out, c)
	}
	return out
}
