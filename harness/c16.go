package harness

// C16 — host invocations on one VM are correct, repeatable and leave no residue.
//
// One "service" program, histories of invocations generated from the choice
// source, a Go model stepped operation by operation, cross-invariants after
// every completed call, and in-history faults (uncaught throw, fatal error,
// limit exceeded, host print error, cancellation at the k-th poll).

import (
	"fmt"
	goruntime "runtime"
	"unicode/utf8"

	"golang.org/x/text/unicode/norm"
	"sort"
	"strings"
	"testing"
	"time"

	"github.com/smarthome-go/homescript/v3/homescript/analyzer/ast"
	herrors "github.com/smarthome-go/homescript/v3/homescript/errors"
	"github.com/smarthome-go/homescript/v3/homescript/runtime"
	"github.com/smarthome-go/homescript/v3/homescript/runtime/value"
	"verif.local/simrt"
)

func init() {
	runners["C16"] = runC16
	planners["C16"] = planC16
	shrinkers["C16"] = func(s RunSpec) []RunSpec {
		return genericShrink(s, map[string]int{"len": 1, "pfault": 0}, nil)
	}
}

const c16Service = `
let counter = 0;
let hist: [int] = [];

fn add(a: int, b: int) -> int { counter = counter + a; a - b }
fn get() -> int { counter }
fn push(x: int) -> int { hist.push(x); hist.len() }
fn concat(a: str, b: str, c: str) -> str { a + "|" + b + "|" + c }
fn obj(n: int) -> { b: { c: int } } { new { b: new { c: n } } }
fn ret_in_loop(n: int) -> int {
    for i in 0..100 {
        if i == n { return i * 2; }
    }
    0 - 1
}
fn ret_in_try(n: int) -> int {
    try {
        if n > 0 { return n; }
        throw("neg");
    } catch e {
        return 0 - n;
    }
}
fn ret_in_while(n: int) -> str {
    let i = 0;
    while true {
        let tmp = [i, i + 1];
        if i >= n { return "w" + tmp[0].to_string(); }
        i = i + 1;
    }
    "unreachable"
}
fn inner_throw(n: int) -> int {
    let pad = [n, n + 1];
    if pad[0] == n { throw("c" + n.to_string()); }
    n
}
fn catcher(n: int) -> str {
    let same = try { throw("c" + n.to_string()); } catch e { e.message };
    // wave 14: the same message once more from an exception that unwinds out of a callee, twice per call
    let k = 0;
    let crossed = "";
    while k < 2 {
        try { k = k + inner_throw(n); } catch e { crossed = e.message; k = k + 1; }
    }
    if same == crossed { crossed } else { "same=" + same + " crossed=" + crossed }
}
fn thrower(msg: str) { throw(msg); }
fn div(a: int, b: int) -> int { a / b }
fn deep(n: int) -> int { if n == 0 { 0 } else { 1 + deep(n - 1) } }
fn worker(i: int) {
    let c = 0;
    while c < ((i * 7) % 5) * 60 { c = c + 1; }
    println("fw", i);
}
fn fanout(n: int) -> int {
    for i in 0..n { spawn worker(i); }
    n
}
fn fanout2(n: int) -> int {
    for i in 0..n { spawn worker(i + 10); }
    let c = 0;
    while c < 120 { c = c + 1; }
    for i in 0..n { spawn worker(i + 20); }
    n * 2
}
fn say(x: int) { println("say", x); }
fn flag(b: bool, f: float) -> bool { !b && f > 1.0 }
fn get_hist() -> [int] { hist }
fn mk_list(n: int) -> [int] {
    let l: [int] = [];
    for i in 0..n { l.push(i * 2); }
    l
}
fn pair(a: str, b: bool) -> { s: str, b: bool } { new { s: a + "!", b: !b } }
fn sum3(a: int, b: int, c: int) -> int { a * 100 + b * 10 + c }
fn nothing(x: int) { let unused = x + 1; }
let SLOTS = 0..8;
let NAMES = ["a", "b", "c", "d"];
fn first_at_least(n: int) -> int {
    for s in SLOTS { if s >= n { return s; } }
    0 - 1
}
fn count_slots() -> int { let c = 0; for s in SLOTS { c = c + 1; } c }
fn find_name(n: str) -> int {
    let i = 0;
    for x in NAMES { if x == n { return i; } i = i + 1; }
    0 - 1
}
fn find_hist(v: int) -> int {
    let i = 0;
    for x in hist { if x == v { break; } i = i + 1; }
    i
}
fn histogram(a: int) -> [int] {
    let h = [0, 0, 0];
    h[a % 3] += 1;
    h[0] = h[0] + a;
    h
}
fn tally(n: int) -> int {
    let z = 0;
    let acc = [z, 1];
    for i in 0..n { acc[0] += i; acc[1] = acc[1] * 2; }
    acc[0] + acc[1]
}
fn greet(name: str) -> [str] {
    let parts = ["Hello", ""];
    parts[1] = parts[1] + name;
    parts[0] = parts[0] + ",";
    parts
}
fn box(x: int) -> { v: int, tag: str } {
    let o = new { v: 0, tag: "t" };
    o.v = o.v + x;
    o.tag = o.tag + "!";
    o
}
fn half(x: int) -> float { (x as float) / 2.0 }
fn grid(n: int) -> [[int]] {
    let g: [[int]] = [];
    for i in 0..n {
        let row = [i, i * i];
        g.push(row);
    }
    g
}
let total_f = 0.5;
fn accumulate(f: float) -> float { total_f = total_f + f; total_f }
let thread_ok = false;
fn doomed(x: int) { if x > 0 - 1000000 { throw("thread failed"); } thread_ok = true; }
fn wait_for_thread(x: int) -> int {
    spawn doomed(x);
    while !thread_ok { time.sleep(0.002); }
    1
}
let cfg = new { retries: 4, name: "x" };
fn patch_cfg(n: int) { let v = cfg as { ? }; v.set("retries", n); }
fn cfg_retries() -> int { cfg.retries }
fn bump_cfg() -> int { cfg.retries += 1; cfg.retries }
let parsed_total = 0;
let parse_errs = 0;
fn add_parsed(s: str) -> int {
    try { parsed_total += s.parse_int(); } catch e { parse_errs += 1; }
    parsed_total
}
fn parse_errors() -> int { parse_errs }
fn read_port(cfg: { ? }, use_default: bool) -> ?int {
    let port: ?int = if use_default { ?8080 } else { cfg.get("port") };
    port
}
let text_acc = "";
fn join2(a: str, b: str) -> str { a + b }
fn feed(chunk: str) -> int { text_acc += chunk; text_acc.len() }
fn tag_count(key: str) -> int {
    let o = new { ? };
    o.set(key, 1);
    o.keys().len()
}
fn shifted(n: int) -> int {
    let r = 3..13;
    r.start = r.start + n;
    r.end = r.end + n;
    r.start * 100 + r.end
}
fn prefix_len(n: int) -> int {
    let k = 0;
    for c in "homescript" {
        if k == n { return k; }
        k = k + 1;
    }
    k
}
let WORD = "automation";
fn word_prefix(n: int) -> int {
    let k = 0;
    for c in WORD {
        if k >= n { break; }
        k = k + 1;
    }
    k
}
fn first_big(n: int) -> int {
    for v in [3, 9, 27, 81] {
        if v > n { return v; }
    }
    0
}
fn scan_until(n: int) -> str {
    let acc = "";
    let k = 0;
    for c in "homescript" {
        if k == n { return acc; }
        acc = acc + c + ",";
        k = k + 1;
    }
    acc
}
fn scan_word(n: int) -> str {
    let acc = "";
    let k = 0;
    for c in WORD {
        if k >= n { break; }
        acc = acc + c + ",";
        k = k + 1;
    }
    acc
}
fn scan_list(n: int) -> int {
    let acc = 0;
    for v in [3, 9, 27, 81] {
        if v > n { break; }
        acc = acc * 100 + v;
    }
    acc
}
let dl = [1, 2];
fn double_dl() -> int {
    if dl.len() > 40 { dl = [1, 2]; }
    dl.concat(dl);
    dl.len()
}
let va: [int] = [];
let vb: [int] = [];
fn alias_views() { vb = va; }
fn push_view(x: int) -> int { va.push(x); va.len() }
fn view_len() -> int { vb.len() }
let span = 8..12;
fn set_span(incl: bool) { if incl { span = 8..=12; } else { span = 8..12; } }
fn count_span() -> int { let c = 0; for _x in span { c = c + 1; } c }
fn sum_list(l: [int]) -> int { let t = 0; for x in l { t = t + x; } t }
let last: [int] = [0];
fn remember(x: int) { last = [x]; }
fn recall() -> int { last[0] }
let last_s: [str] = ["", ""];
fn remember_s(a: str, b: str) { last_s = [a, b]; }
fn recall_s() -> str { last_s[0] + "/" + last_s[1] }
fn main() {}
`

var c16Limits = runtime.CoreLimits{CallStackMaxSize: 64, StackMaxSize: 400, MaxMemorySize: 3000}

type c16Model struct {
	last    int64
	lastS   [2]string
	counter int64
	totalF  float64
	aliased  bool // alias_views() has run: vb and va are one list
	viewA    int  // elements pushed through va
	spanIncl bool
	textAcc     string
	cfgRetries  int64
	cfgSet      bool
	parsedTotal int64
	parseErrs   int64
	firstResult map[string]string // pure calls judged against their own first result
	dlLen    int // length of the global list that double_dl() concatenates with itself
	log     []int64
	failed  bool
	lines   map[string]int
}

type c16Op struct {
	fn   string
	args []value.Value
	desc string
	// expected: either fail kinds (any of) or a checker of the returned value
	failKinds []string
	check     func(v value.Value) string
	apply     func(m *c16Model)
	pure      bool // neither reads nor writes globals, prints nothing: may overlap with another invocation
	reusable  bool // the expected result does not depend on the model state: the same invocation object may be submitted again
}

func vInt(i int64) value.Value   { return *value.NewValueInt(i) }
func vStr(s string) value.Value  { return *value.NewValueString(s) }
func vBool(b bool) value.Value   { return *value.NewValueBool(b) }
func vFloat(f float64) value.Value { return *value.NewValueFloat(f) }

func wantInt(x int64) func(value.Value) string {
	return func(v value.Value) string {
		i, ok := v.(value.ValueInt)
		if !ok {
			return fmt.Sprintf("returned %T, want int %d", v, x)
		}
		if i.Inner != x {
			return fmt.Sprintf("returned %d, want %d", i.Inner, x)
		}
		return ""
	}
}

func wantFloat(x float64) func(value.Value) string {
	return func(v value.Value) string {
		fv, ok := v.(value.ValueFloat)
		if !ok {
			return fmt.Sprintf("returned %T, want float", v)
		}
		if d := fv.Inner - x; d > 1e-9 || d < -1e-9 {
			return fmt.Sprintf("returned %v, want %v", fv.Inner, x)
		}
		return ""
	}
}

func wantStr(x string) func(value.Value) string {
	return func(v value.Value) string {
		s, ok := v.(value.ValueString)
		if !ok {
			return fmt.Sprintf("returned %T, want string %q", v, x)
		}
		if s.Inner != x {
			return fmt.Sprintf("returned %q, want %q", s.Inner, x)
		}
		return ""
	}
}

func wantIntList(want []int64) func(value.Value) string {
	return func(v value.Value) string {
		l, ok := v.(value.ValueList)
		if !ok {
			return fmt.Sprintf("returned %T, want a list", v)
		}
		if len(*l.Values) != len(want) {
			return fmt.Sprintf("returned a list of %d elements, want %d", len(*l.Values), len(want))
		}
		for i, e := range *l.Values {
			if msg := wantInt(want[i])(*e); msg != "" {
				return fmt.Sprintf("element %d: %s", i, msg)
			}
		}
		return ""
	}
}

func wantNull(v value.Value) string {
	if v != nil {
		if _, ok := v.(value.ValueNull); !ok {
			return fmt.Sprintf("returned %T, want nothing", v)
		}
	}
	return ""
}

var intArgs = []int64{0, 1, -1, 2, 7, 99, 100, -50, 1 << 40, 9007199254740993, -9007199254740993, 1234567890123456789}
var strArgs = []string{"", "a", "xy z", "|", "ü"}

// genOp draws one operation. pfault in [0..100]: percentage of failing operations.
func c16GenOp(s *simrt.Sim, m *c16Model, pfault int, force int) c16Op {
	pick := func(n int, tag string) int {
		if tag == "op" && force >= 0 {
			return force // directed histories: one entry point over and over
		}
		return s.Choose(n, tag)
	}
	if pfault > 0 && pick(100, "faultop") < pfault {
		switch pick(4, "faultkind") {
		case 0:
			msg := strArgs[pick(len(strArgs), "arg")]
			return c16Op{fn: "thrower", args: []value.Value{vStr(msg)}, desc: fmt.Sprintf("thrower(%q)", msg), failKinds: []string{"fatal:UncaughtThrow"}}
		case 1:
			a := intArgs[pick(len(intArgs), "arg")]
			return c16Op{fn: "div", args: []value.Value{vInt(a), vInt(0)}, desc: fmt.Sprintf("div(%d,0)", a), failKinds: []string{"fatal:ValueError"}}
		case 2:
			if pick(2, "faultkind2") == 1 {
				// the called function waits for a thread it spawned, and that thread fails: the call fails
				// with the thread's interrupt (and does not hang until the host gives up)
				return c16Op{fn: "wait_for_thread", args: []value.Value{vInt(1)}, desc: "wait_for_thread(1)", failKinds: []string{"fatal:UncaughtThrow"}}
			}
			return c16Op{pure: true, reusable: true, fn: "deep", args: []value.Value{vInt(300)}, desc: "deep(300)", failKinds: []string{"fatal:StackOverFlow"}}
		default:
			// handled by the caller: print fault / cancel fault on an ordinary op
		}
	}
	switch pick(62, "op") {
	case 59, 60:
		// text arrives in chunks that may be cut between a letter and its combining mark: what the script
		// sees is the same text whatever the cut (strings are values in NFC on this backend)
		parts := [][2]string{{"Cafe", "\u0301 au lait"}, {"Caf", "e\u0301 au lait"}, {"u", "\u0308ber"}, {"a", "b"}, {"", "e\u0301"}}[pick(5, "arg")]
		want := norm.NFC.String(parts[0] + parts[1])
		return c16Op{pure: true, reusable: true, fn: "join2", args: []value.Value{vStr(parts[0]), vStr(parts[1])}, desc: fmt.Sprintf("join2(%q,%q)", parts[0], parts[1]), check: wantStr(want)}
	case 61:
		chunk := []string{"Cafe", "\u0301", " au lait", "x", "u\u0308"}[pick(5, "arg")]
		acc := norm.NFC.String(m.textAcc + chunk)
		return c16Op{fn: "feed", args: []value.Value{vStr(chunk)}, desc: fmt.Sprintf("feed(%q)", chunk), check: wantInt(int64(utf8.RuneCountInString(acc))), apply: func(m *c16Model) { m.textAcc = acc }}
	case 57, 58:
		// an any-object from the host; the declared result type is ?int whatever the object holds
		which := pick(3, "arg")
		def := pick(2, "arg") == 1
		var pv *value.Value
		switch which {
		case 0:
			pv = value.NewValueInt(9000)
		case 1:
			pv = value.NewValueInt(-1)
		default:
			pv = value.NewValueString("http")
		}
		cfg := *value.NewValueAnyObject(map[string]*value.Value{"port": pv})
		desc := fmt.Sprintf("read_port({port: %d}, %v)", which, def)
		wantDisp := map[int]string{0: "Some(9000)", 1: "Some(-1)"}[which]
		if def {
			wantDisp = "Some(8080)"
		}
		if which == 2 && !def {
			// a string where the declared type says int: the cast inside the function fails, the call fails
			return c16Op{fn: "read_port", args: []value.Value{cfg, vBool(def)}, desc: desc, failKinds: []string{"fatal:UncaughtThrow", "fatal:CastError"}}
		}
		return c16Op{pure: true, fn: "read_port", args: []value.Value{cfg, vBool(def)}, desc: desc, check: func(v value.Value) string {
			if _, ok := v.(value.ValueOption); !ok {
				return fmt.Sprintf("returned %T, want an option", v)
			}
			d, _ := v.Display()
			if d != wantDisp {
				return fmt.Sprintf("returned %s, want %s", d, wantDisp)
			}
			return ""
		}}
	case 51:
		n := []int64{0, 7, 10, 99}[pick(4, "arg")]
		return c16Op{fn: "patch_cfg", args: []value.Value{vInt(n)}, desc: fmt.Sprintf("patch_cfg(%d)", n), check: wantNull, apply: func(m *c16Model) { m.cfgRetries, m.cfgSet = n, true }}
	case 52:
		want := int64(4)
		if m.cfgSet {
			want = m.cfgRetries
		}
		return c16Op{fn: "cfg_retries", desc: "cfg_retries()", check: wantInt(want)}
	case 53:
		cur := int64(4)
		if m.cfgSet {
			cur = m.cfgRetries
		}
		return c16Op{fn: "bump_cfg", desc: "bump_cfg()", check: wantInt(cur + 1), apply: func(m *c16Model) { m.cfgRetries, m.cfgSet = cur+1, true }}
	case 54, 55:
		arg := []string{"5", "x", "12", "", "-3", "1e"}[pick(6, "arg")]
		add, bad := int64(0), false
		switch arg {
		case "5":
			add = 5
		case "12":
			add = 12
		case "-3":
			add = -3
		default:
			bad = true
		}
		want := m.parsedTotal + add
		return c16Op{fn: "add_parsed", args: []value.Value{vStr(arg)}, desc: fmt.Sprintf("add_parsed(%q)", arg), check: wantInt(want), apply: func(m *c16Model) {
			m.parsedTotal = want
			if bad {
				m.parseErrs++
			}
		}}
	case 56:
		return c16Op{fn: "parse_errors", desc: "parse_errors()", check: wantInt(m.parseErrs)}
	case 49:
		key := []string{"kitchen", "hallway", "garage", "k"}[pick(4, "arg")]
		return c16Op{pure: true, reusable: true, fn: "tag_count", args: []value.Value{vStr(key)}, desc: fmt.Sprintf("tag_count(%q)", key), check: wantInt(1)}
	case 50:
		n := []int64{0, 1, 3, 10}[pick(4, "arg")]
		return c16Op{pure: true, reusable: true, fn: "shifted", args: []value.Value{vInt(n)}, desc: fmt.Sprintf("shifted(%d)", n), check: wantInt((3+n)*100 + 13 + n)}
	case 46, 47, 48:
		// what a loop over a literal (or a global string) sees does not depend on how earlier calls left
		// such a loop: the result of the same call is the same every time (judged against the first
		// result of this history, not against a constant: what a string yields per step is not C16's business)
		fn := []string{"scan_until", "scan_word", "scan_list"}[pick(3, "which-scan")]
		n := []int64{0, 1, 2, 3, 5, 30}[pick(6, "arg")]
		key := fmt.Sprintf("%s(%d)", fn, n)
		return c16Op{pure: true, reusable: true, fn: fn, args: []value.Value{vInt(n)}, desc: key, check: func(v value.Value) string {
			d, err := v.Display()
			if err != nil {
				return "result cannot be displayed"
			}
			if m.firstResult == nil {
				m.firstResult = map[string]string{}
			}
			if prev, ok := m.firstResult[key]; ok && prev != d {
				return fmt.Sprintf("returned %q; the same call returned %q earlier in this history", d, prev)
			}
			m.firstResult[key] = d
			return ""
		}}
	case 42:
		n := []int64{0, 3, 5, 10, 12}[pick(5, "arg")]
		want := n
		if want > 10 {
			want = 10
		}
		return c16Op{pure: true, reusable: true, fn: "prefix_len", args: []value.Value{vInt(n)}, desc: fmt.Sprintf("prefix_len(%d)", n), check: wantInt(want)}
	case 43:
		n := []int64{0, 2, 4, 10, 11}[pick(5, "arg")]
		want := n
		if want > 10 {
			want = 10
		}
		return c16Op{pure: true, reusable: true, fn: "word_prefix", args: []value.Value{vInt(n)}, desc: fmt.Sprintf("word_prefix(%d)", n), check: wantInt(want)}
	case 44:
		n := []int64{0, 3, 10, 50, 100}[pick(5, "arg")]
		want := int64(0)
		for _, v := range []int64{3, 9, 27, 81} {
			if v > n {
				want = v
				break
			}
		}
		return c16Op{pure: true, reusable: true, fn: "first_big", args: []value.Value{vInt(n)}, desc: fmt.Sprintf("first_big(%d)", n), check: wantInt(want)}
	case 45:
		cur := m.dlLen
		if cur == 0 {
			cur = 2
		}
		if cur > 40 {
			cur = 2
		}
		want := int64(cur * 2)
		return c16Op{fn: "double_dl", desc: "double_dl()", check: wantInt(want), apply: func(m *c16Model) { m.dlLen = int(want) }}
	case 36:
		return c16Op{fn: "alias_views", desc: "alias_views()", check: wantNull, apply: func(m *c16Model) { m.aliased = true }}
	case 37:
		x := intArgs[pick(len(intArgs), "arg")]
		n := int64(m.viewA + 1)
		return c16Op{fn: "push_view", args: []value.Value{vInt(x)}, desc: fmt.Sprintf("push_view(%d)", x), check: wantInt(n), apply: func(m *c16Model) { m.viewA++ }}
	case 38:
		want := int64(0)
		if m.aliased {
			want = int64(m.viewA) // `vb = va` made both names denote one list
		}
		return c16Op{fn: "view_len", desc: "view_len()", check: wantInt(want)}
	case 39:
		incl := pick(2, "arg") == 1
		return c16Op{fn: "set_span", args: []value.Value{vBool(incl)}, desc: fmt.Sprintf("set_span(%v)", incl), check: wantNull, apply: func(m *c16Model) { m.spanIncl = incl }}
	case 40:
		want := int64(4)
		if m.spanIncl {
			want = 5
		}
		return c16Op{fn: "count_span", desc: "count_span()", check: wantInt(want)}
	case 41:
		n := []int{0, 3, 64, 65, 200}[pick(5, "arg")]
		vals := make([]*value.Value, n)
		sum := int64(0)
		for i := range vals {
			vals[i] = value.NewValueInt(int64(i + 1))
			sum += int64(i + 1)
		}
		return c16Op{pure: true, fn: "sum_list", args: []value.Value{*value.NewValueList(vals)}, desc: fmt.Sprintf("sum_list([1..%d])", n), check: wantInt(sum)}
	case 33:
		x := []int64{0, 1, 7, -3, 100}[pick(5, "arg")]
		return c16Op{pure: true, reusable: true, fn: "half", args: []value.Value{vInt(x)}, desc: fmt.Sprintf("half(%d)", x), check: wantFloat(float64(x) / 2.0)}
	case 34:
		n := []int64{0, 1, 3}[pick(3, "arg")]
		return c16Op{pure: true, reusable: true, fn: "grid", args: []value.Value{vInt(n)}, desc: fmt.Sprintf("grid(%d)", n), check: func(v value.Value) string {
			l, ok := v.(value.ValueList)
			if !ok || l.Values == nil || int64(len(*l.Values)) != n {
				return fmt.Sprintf("returned %T, want a list of %d rows", v, n)
			}
			for i, row := range *l.Values {
				if msg := wantIntList([]int64{int64(i), int64(i * i)})(*row); msg != "" {
					return fmt.Sprintf("row %d: %s", i, msg)
				}
			}
			return ""
		}}
	case 35:
		f := []float64{0.25, 1.5, -2.0}[pick(3, "arg")]
		want := m.totalF + 0.5 + f
		return c16Op{fn: "accumulate", args: []value.Value{vFloat(f)}, desc: fmt.Sprintf("accumulate(%v)", f), check: wantFloat(want), apply: func(m *c16Model) { m.totalF += f }}
	case 29:
		a := []int64{0, 1, 2, 7, 99}[pick(5, "arg")]
		want := []int64{0, 0, 0}
		want[a%3]++
		want[0] += a
		return c16Op{pure: true, reusable: true, fn: "histogram", args: []value.Value{vInt(a)}, desc: fmt.Sprintf("histogram(%d)", a), check: wantIntList(want)}
	case 30:
		n := []int64{0, 1, 4, 9}[pick(4, "arg")]
		acc0, acc1 := int64(0), int64(1)
		for i := int64(0); i < n; i++ {
			acc0 += i
			acc1 *= 2
		}
		return c16Op{pure: true, reusable: true, fn: "tally", args: []value.Value{vInt(n)}, desc: fmt.Sprintf("tally(%d)", n), check: wantInt(acc0 + acc1)}
	case 31:
		a := strArgs[pick(len(strArgs), "arg")]
		return c16Op{pure: true, reusable: true, fn: "greet", args: []value.Value{vStr(a)}, desc: fmt.Sprintf("greet(%q)", a), check: func(v value.Value) string {
			l, ok := v.(value.ValueList)
			if !ok || l.Values == nil || len(*l.Values) != 2 {
				return fmt.Sprintf("returned %T, want a list of two strings", v)
			}
			if msg := wantStr("Hello,")(*(*l.Values)[0]); msg != "" {
				return "element 0: " + msg
			}
			if msg := wantStr(a)(*(*l.Values)[1]); msg != "" {
				return "element 1: " + msg
			}
			return ""
		}}
	case 32:
		x := intArgs[pick(len(intArgs), "arg")]
		return c16Op{pure: true, reusable: true, fn: "box", args: []value.Value{vInt(x)}, desc: fmt.Sprintf("box(%d)", x), check: func(v value.Value) string {
			o, ok := v.(value.ValueObject)
			if !ok || len(o.FieldsInternal) != 2 {
				return fmt.Sprintf("returned %T, want an object with fields v and tag", v)
			}
			vv, ok1 := o.FieldsInternal["v"]
			tv, ok2 := o.FieldsInternal["tag"]
			if !ok1 || !ok2 {
				return "object lacks field v or tag"
			}
			if msg := wantInt(x)(*vv); msg != "" {
				return "field v: " + msg
			}
			if msg := wantStr("t!")(*tv); msg != "" {
				return "field tag: " + msg
			}
			return ""
		}}
	case 25:
		n := []int64{0, 1, 3, 7, 8, 9}[pick(6, "arg")]
		want := int64(-1)
		if n <= 7 {
			want = n
		}
		return c16Op{reusable: true, fn: "first_at_least", args: []value.Value{vInt(n)}, desc: fmt.Sprintf("first_at_least(%d)", n), check: wantInt(want)}
	case 26:
		return c16Op{reusable: true, fn: "count_slots", desc: "count_slots()", check: wantInt(8)}
	case 27:
		names := []string{"a", "b", "c", "d", "zz"}
		i := pick(5, "arg")
		want := int64(i)
		if i == 4 {
			want = -1
		}
		return c16Op{reusable: true, fn: "find_name", args: []value.Value{vStr(names[i])}, desc: fmt.Sprintf("find_name(%q)", names[i]), check: wantInt(want)}
	case 28:
		x := intArgs[pick(len(intArgs), "arg")]
		want := int64(len(m.log))
		for i, e := range m.log {
			if e == x {
				want = int64(i)
				break
			}
		}
		return c16Op{fn: "find_hist", args: []value.Value{vInt(x)}, desc: fmt.Sprintf("find_hist(%d)", x), check: wantInt(want)}
	case 21:
		x := intArgs[pick(len(intArgs), "arg")]
		return c16Op{fn: "remember", args: []value.Value{vInt(x)}, desc: fmt.Sprintf("remember(%d)", x), check: wantNull, apply: func(m *c16Model) { m.last = x }}
	case 22:
		l := m.last
		return c16Op{fn: "recall", desc: "recall()", check: wantInt(l)}
	case 23:
		a, b := strArgs[pick(len(strArgs), "arg")], strArgs[pick(len(strArgs), "arg")]
		return c16Op{fn: "remember_s", args: []value.Value{vStr(a), vStr(b)}, desc: fmt.Sprintf("remember_s(%q,%q)", a, b), check: wantNull, apply: func(m *c16Model) { m.lastS = [2]string{a, b} }}
	case 24:
		ls := m.lastS
		return c16Op{fn: "recall_s", desc: "recall_s()", check: wantStr(ls[0] + "/" + ls[1])}
	case 16:
		want := append([]int64(nil), m.log...)
		return c16Op{fn: "get_hist", desc: "get_hist()", check: wantIntList(want)}
	case 17:
		n := []int64{0, 1, 3, 7, 64, 65, 150}[pick(7, "arg")]
		var want []int64
		for i := int64(0); i < n; i++ {
			want = append(want, i*2)
		}
		return c16Op{pure: true, reusable: true, fn: "mk_list", args: []value.Value{vInt(n)}, desc: fmt.Sprintf("mk_list(%d)", n), check: wantIntList(want)}
	case 18:
		a := strArgs[pick(len(strArgs), "arg")]
		b := pick(2, "arg") == 1
		return c16Op{pure: true, reusable: true, fn: "pair", args: []value.Value{vStr(a), vBool(b)}, desc: fmt.Sprintf("pair(%q,%v)", a, b), check: func(v value.Value) string {
			o, ok := v.(value.ValueObject)
			if !ok || len(o.FieldsInternal) != 2 {
				return fmt.Sprintf("returned %T, want an object with fields s and b", v)
			}
			sv, ok1 := o.FieldsInternal["s"]
			bv, ok2 := o.FieldsInternal["b"]
			if !ok1 || !ok2 {
				return "object lacks field s or b"
			}
			if msg := wantStr(a + "!")(*sv); msg != "" {
				return "field s: " + msg
			}
			if bb, ok := (*bv).(value.ValueBool); !ok || bb.Inner != !b {
				return "field b is wrong"
			}
			return ""
		}}
	case 19:
		a, b, c := int64(pick(10, "arg")), int64(pick(10, "arg")), int64(pick(10, "arg"))
		return c16Op{pure: true, reusable: true, fn: "sum3", args: []value.Value{vInt(a), vInt(b), vInt(c)}, desc: fmt.Sprintf("sum3(%d,%d,%d)", a, b, c), check: wantInt(a*100 + b*10 + c)}
	case 20:
		x := intArgs[pick(len(intArgs), "arg")]
		return c16Op{reusable: true, fn: "nothing", args: []value.Value{vInt(x)}, desc: fmt.Sprintf("nothing(%d)", x), check: wantNull}
	case 15:
		n := []int64{1, 2, 3}[pick(3, "arg")]
		return c16Op{fn: "fanout2", args: []value.Value{vInt(n)}, desc: fmt.Sprintf("fanout2(%d)", n), check: wantInt(n * 2), reusable: true, apply: func(m *c16Model) {
			for i := int64(0); i < n; i++ {
				m.lines[fmt.Sprintf("fw %d", i+10)]++
				m.lines[fmt.Sprintf("fw %d", i+20)]++
			}
		}}
	case 0:
		a, b := intArgs[pick(len(intArgs), "arg")], intArgs[pick(len(intArgs), "arg")]
		return c16Op{reusable: true, fn: "add", args: []value.Value{vInt(a), vInt(b)}, desc: fmt.Sprintf("add(%d,%d)", a, b), check: wantInt(a - b), apply: func(m *c16Model) { m.counter += a }}
	case 1:
		c := m.counter
		return c16Op{fn: "get", desc: "get()", check: wantInt(c)}
	case 2:
		x := intArgs[pick(len(intArgs), "arg")]
		n := int64(len(m.log) + 1)
		return c16Op{fn: "push", args: []value.Value{vInt(x)}, desc: fmt.Sprintf("push(%d)", x), check: wantInt(n), apply: func(m *c16Model) { m.log = append(m.log, x) }}
	case 3:
		a, b, c := strArgs[pick(len(strArgs), "arg")], strArgs[pick(len(strArgs), "arg")], strArgs[pick(len(strArgs), "arg")]
		return c16Op{pure: true, reusable: true, fn: "concat", args: []value.Value{vStr(a), vStr(b), vStr(c)}, desc: fmt.Sprintf("concat(%q,%q,%q)", a, b, c), check: wantStr(a + "|" + b + "|" + c)}
	case 4:
		n := intArgs[pick(len(intArgs), "arg")]
		return c16Op{pure: true, reusable: true, fn: "obj", args: []value.Value{vInt(n)}, desc: fmt.Sprintf("obj(%d)", n), check: func(v value.Value) string {
			o, ok := v.(value.ValueObject)
			if !ok {
				return fmt.Sprintf("returned %T, want object", v)
			}
			b, ok := o.FieldsInternal["b"]
			if !ok || len(o.FieldsInternal) != 1 {
				return "object does not have exactly the field b"
			}
			bo, ok := (*b).(value.ValueObject)
			if !ok {
				return "field b is not an object"
			}
			c, ok := bo.FieldsInternal["c"]
			if !ok {
				return "field b.c missing"
			}
			return wantInt(n)(*c)
		}}
	case 5:
		n := []int64{0, 1, 50, 99, 100, -3}[pick(6, "arg")]
		want := int64(-1)
		if n >= 0 && n < 100 {
			want = n * 2
		}
		return c16Op{pure: true, reusable: true, fn: "ret_in_loop", args: []value.Value{vInt(n)}, desc: fmt.Sprintf("ret_in_loop(%d)", n), check: wantInt(want)}
	case 6:
		n := []int64{3, 0, -4, 1}[pick(4, "arg")]
		want := n
		if n <= 0 {
			want = -n
		}
		return c16Op{pure: true, reusable: true, fn: "ret_in_try", args: []value.Value{vInt(n)}, desc: fmt.Sprintf("ret_in_try(%d)", n), check: wantInt(want)}
	case 7:
		n := []int64{0, 1, 5, 20}[pick(4, "arg")]
		return c16Op{pure: true, reusable: true, fn: "ret_in_while", args: []value.Value{vInt(n)}, desc: fmt.Sprintf("ret_in_while(%d)", n), check: wantStr(fmt.Sprintf("w%d", n))}
	case 8:
		n := intArgs[pick(len(intArgs), "arg")]
		return c16Op{pure: true, reusable: true, fn: "catcher", args: []value.Value{vInt(n)}, desc: fmt.Sprintf("catcher(%d)", n), check: wantStr(fmt.Sprintf("c%d", n))}
	case 9:
		a := intArgs[pick(len(intArgs), "arg")]
		b := []int64{1, -1, 2, 7, 1 << 20}[pick(5, "arg")]
		return c16Op{reusable: true, fn: "div", args: []value.Value{vInt(a), vInt(b)}, desc: fmt.Sprintf("div(%d,%d)", a, b), check: wantInt(a / b)}
	case 10:
		n := []int64{0, 1, 5, 30}[pick(4, "arg")]
		return c16Op{pure: true, reusable: true, fn: "deep", args: []value.Value{vInt(n)}, desc: fmt.Sprintf("deep(%d)", n), check: wantInt(n)}
	case 11:
		n := []int64{0, 1, 2, 4}[pick(4, "arg")]
		return c16Op{reusable: true, fn: "fanout", args: []value.Value{vInt(n)}, desc: fmt.Sprintf("fanout(%d)", n), check: wantInt(n), apply: func(m *c16Model) {
			for i := int64(0); i < n; i++ {
				m.lines[fmt.Sprintf("fw %d", i)]++
			}
		}}
	case 12:
		x := intArgs[pick(len(intArgs), "arg")]
		return c16Op{reusable: true, fn: "say", args: []value.Value{vInt(x)}, desc: fmt.Sprintf("say(%d)", x), check: wantNull, apply: func(m *c16Model) { m.lines[fmt.Sprintf("say %d", x)]++ }}
	case 13:
		b := pick(2, "arg") == 1
		f := []float64{0.5, 1.0, 2.5, -3.0}[pick(4, "arg")]
		want := !b && f > 1.0
		return c16Op{pure: true, reusable: true, fn: "flag", args: []value.Value{vBool(b), vFloat(f)}, desc: fmt.Sprintf("flag(%v,%v)", b, f), check: func(v value.Value) string {
			bv, ok := v.(value.ValueBool)
			if !ok {
				return fmt.Sprintf("returned %T, want bool", v)
			}
			if bv.Inner != want {
				return fmt.Sprintf("returned %v, want %v", bv.Inner, want)
			}
			return ""
		}}
	default:
		c := m.counter
		return c16Op{fn: "get", desc: "get()", check: wantInt(c)}
	}
}

func c16Invocation(prog *compiled, fn string, args []value.Value) (runtime.FunctionInvocation, error) {
	for _, f := range prog.an.Modules["main"].Functions {
		if f.Ident.Ident() != fn {
			continue
		}
		sig := runtime.FunctionInvocationSignature{ReturnType: f.ReturnType}
		for _, p := range f.Parameters.List {
			sig.Params = append(sig.Params, runtime.FunctionInvocationSignatureParam{Ident: p.Ident.Ident(), Type: p.Type})
		}
		return runtime.FunctionInvocation{Function: fn, Args: args, FunctionSignature: sig}, nil
	}
	return runtime.FunctionInvocation{}, fmt.Errorf("function %s not in service program", fn)
}

// runC16Gen: histories over generated pure functions. Oracle (metamorphic): the result of a call equals
// the result of the same call on a fresh VM, whatever was called before or is in flight next to it.
func runC16Gen(t *testing.T, spec RunSpec) *Verdict {
	const P = "C16"
	v := &Verdict{}
	gs := uint64(spec.P("gen", 1))
	src := genFunctions(gs, 4)
	prog, err := MustCompile(Single(src + "fn main() {}\n"))
	if err != nil {
		v.Probes = map[string]int{"generated-program-rejected": 1}
		return v
	}
	v.Extra = map[string]any{"source": src}
	// the reference table of this generator seed is computed before (outside) the simulation
	if _, gerr := genReference(t, gs, src, 0, 0); strings.HasPrefix(gerr, "infra") || strings.HasPrefix(gerr, "reference run: crash") || strings.HasPrefix(gerr, "reference run: deadlock") {
		v.fail(P, refClass(gerr), "call-result", "generated:reference", "calls of generated functions on fresh VMs: "+gerr)
		return v
	}
	env := newVMEnv(prog, c16Limits)
	var history []string
	var viol func()
	failNow := func(class, clause, culprit, msg string) {
		if viol == nil {
			h := strings.Join(history, "; ")
			viol = func() { v.fail(P, class, clause, culprit, msg+" | history: "+h) }
		}
	}
	res := simrt.Run(t, simConfig(spec.Sim), simSource(spec), func(s *simrt.Sim) {
		env.boot()
		n := 1 + s.Choose(spec.P("len", 10), "histlen")
		mk := func() (string, runtime.FunctionInvocation, int64, string) {
			k, arg := s.Choose(4, "op"), s.Choose(genArgs, "arg")
			want, gerr := genReference(t, gs, src, k, arg)
			inv, _ := c16Invocation(prog, fmt.Sprintf("e%d", k), []value.Value{vInt(int64(arg))})
			return fmt.Sprintf("e%d(%d)", k, arg), inv, want, gerr
		}
		for c := 0; c < n && viol == nil; c++ {
			desc, inv, want, gerr := mk()
			if gerr != "" {
				s.Probe("generated-call-fails-on-fresh-vm")
				continue
			}
			s.SetDeadline("call-returns", 600*time.Second)
			var results []runtime.FunctionInvocationResult
			wants := []int64{want}
			descs := []string{desc}
			switch mode := s.Choose(4, "mode"); mode {
			case 0:
				results = append(results, env.vm.SpawnSync(inv, nil, nil))
			case 3:
				desc2, inv2, want2, gerr2 := mk()
				if gerr2 == "" {
					s.Probe("overlapping-invocations")
					c1 := env.vm.SpawnAsync(inv, nil, nil, nil)
					c2 := env.vm.SpawnAsync(inv2, nil, nil, nil)
					num, i := env.vm.Wait()
					results = append(results, env.vm.HandleTermination(c1, inv, i, num), env.vm.HandleTermination(c2, inv2, i, num))
					wants = append(wants, want2)
					descs = append(descs, desc2)
					break
				}
				fallthrough
			default:
				core := env.vm.SpawnAsync(inv, nil, nil, nil)
				num, i := env.vm.Wait()
				results = append(results, env.vm.HandleTermination(core, inv, i, num))
			}
			s.ClearDeadline("call-returns")
			history = append(history, strings.Join(descs, " || "))
			for ri, r := range results {
				if r.Exception != nil {
					failNow("wrong-result", "call-result", "generated:failed", fmt.Sprintf("call #%d %s failed (%s) although the same call completes on a fresh VM", c, descs[ri], firstLine(r.Exception.Interrupt.Message())))
					return
				}
				if msg := wantInt(wants[ri])(r.ReturnValue); msg != "" {
					failNow("wrong-result", "call-result", "generated:value", fmt.Sprintf("call #%d %s %s (the value the same call returns on a fresh VM)", c, descs[ri], msg))
					return
				}
			}
			s.Settle(time.Second)
			if others := s.Others(); len(others) > 0 {
				failNow("leftover-task", "no-residue-cores", "generated", fmt.Sprintf("after completed call #%d other tasks are still alive: %v", c, others))
				return
			}
			if nc, ok := vmCoreCount(env.vm); ok && nc != 0 {
				failNow("wrong-result", "no-residue-cores", "core-list", fmt.Sprintf("after completed call #%d the VM still lists %d core(s)", c, nc))
				return
			}
			if held := s.LocksHeld(); len(held) > 0 {
				failNow("wrong-result", "no-residue-locks", strings.Join(s.LockSites(), ","), fmt.Sprintf("after completed call #%d a lock is still held: %v", c, held))
				return
			}
		}
	})
	v.absorb(P, res)
	v.Output = history
	if v.Class != "" {
		v.Msg += " | history: " + strings.Join(history, "; ")
		return v
	}
	if viol != nil {
		viol()
	}
	return v
}

func runC16(t *testing.T, spec RunSpec) *Verdict {
	const P = "C16"
	if spec.P("gen", 0) > 0 {
		return runC16Gen(t, spec)
	}
	v := &Verdict{}
	prog, err := MustCompile(Single(c16Service))
	if err != nil {
		v.fail(P, "infra", "", "", "service program does not compile: "+err.Error())
		return v
	}
	if spec.P("residency", 0) == 1 {
		return runC16Residency(t, spec, prog)
	}
	env := newVMEnv(prog, c16Limits)
	maxLen := spec.P("len", 10)
	pfault := spec.P("pfault", 10)
	var history []string
	var viol func()
	failNow := func(class, clause, culprit, msg string) {
		if viol == nil {
			h := strings.Join(history, "; ")
			viol = func() { v.fail(P, class, clause, culprit, msg+" | history: "+h) }
		}
	}
	res := simrt.Run(t, simConfig(spec.Sim), simSource(spec), func(s *simrt.Sim) {
		env.boot()
		env.ctx.ResetPolls()
		m := &c16Model{lines: map[string]int{}}
		n := 1 + s.Choose(maxLen, "histlen")
		if pfault > 0 && spec.P("force_op", -1) < 0 && s.Choose(25, "cancel-before-first-call") == 1 {
			// the host cancels before it ever calls anything: every call is answered with a failure
			env.ctx.Fire("before the first call")
			m.failed = true
			history = append(history, "CANCEL before the first call")
			s.Fault("cancel-before-first-call")
		}
		var prev *c16Op
		var prevInv *runtime.FunctionInvocation
		type heldValue struct {
			from string
			v    value.Value
			disp string
		}
		var held []heldValue
		defer func() {
			for _, h := range held {
				if d, derr := h.v.Display(); derr == nil && d != h.disp && viol == nil {
					failNow("wrong-result", "returned-value-is-the-hosts", "aliased", fmt.Sprintf("the value returned by %s changed after later calls: it was %q, now it is %q", h.from, clip(h.disp), clip(d)))
				}
			}
		}()
		for k := 0; k < n && viol == nil; k++ {
			if !m.failed && spec.P("force_op", -1) < 0 && s.Choose(12, "bad-call") == 1 {
				// An invocation the VM has to reject (unknown function, wrong number or type of arguments: the
				// API panics). Whatever it does, it must leave nothing behind: the calls that follow are judged
				// as if it had not happened.
				var bad runtime.FunctionInvocation
				what := ""
				switch s.Choose(3, "bad-call-kind") {
				case 0:
					bad = runtime.FunctionInvocation{Function: "no_such_fn", FunctionSignature: runtime.FunctionInvocationSignature{ReturnType: ast.NewNullType(herrors.Span{})}}
					what = "no_such_fn()"
				case 1:
					bad, _ = c16Invocation(prog, "add", []value.Value{vInt(1)})
					what = "add(1) [one argument missing]"
				default:
					bad, _ = c16Invocation(prog, "add", []value.Value{vStr("x"), vInt(1)})
					what = "add(\"x\",1) [wrong type]"
				}
				async := s.Choose(2, "bad-call-mode") == 1
				rejected := false
				var badResult runtime.FunctionInvocationResult
				func() {
					defer func() {
						if r := recover(); r != nil {
							rejected = true
						}
					}()
					s.SetDeadline("rejected-call-returns", 2*time.Second)
					if async {
						c := env.vm.SpawnAsync(bad, nil, nil, nil)
						num, i := env.vm.Wait()
						badResult = env.vm.HandleTermination(c, bad, i, num)
					} else {
						badResult = env.vm.SpawnSync(bad, nil, nil)
					}
				}()
				s.ClearDeadline("rejected-call-returns")
				history = append(history, "REJECTED "+what)
				switch {
				case rejected:
					s.Probe("invalid-invocation-rejected")
				case badResult.Exception != nil:
					// not a panic but a failure result: a failed call like any other - later calls are
					// answered with a failure, promptly
					s.Probe("invalid-invocation-answered-with-a-failure")
					m.failed = true
				default:
					s.Probe("invalid-invocation-was-not-rejected")
					return // the VM ran something the model knows nothing about
				}
			}
			if !m.failed && s.Choose(10, "idle-wait") == 1 {
				// waiting when nothing runs returns at once and reports nothing
				s.SetDeadline("idle-wait-returns", 2*time.Second)
				num, i := env.vm.Wait()
				s.ClearDeadline("idle-wait-returns")
				history = append(history, "Wait() with no call in flight")
				s.Probe("wait-with-no-core")
				if i != nil {
					failNow("wrong-result", "call-result", "idle-wait", fmt.Sprintf("Wait() with no call in flight reported an interrupt of core %d: %s", num, firstLine((*i).Message())))
					return
				}
			}
			op := c16GenOp(s, m, pfault, spec.P("force_op", -1))
			reuse := false
			if prev != nil && prev.reusable && len(op.failKinds) == 0 && s.Choose(4, "reuse-invocation") == 1 {
				// a host may submit the very same invocation object (same argument slice) again
				op = *prev
				op.failKinds = nil
				op.desc += " [same invocation object]"
				reuse = true
				s.Probe("invocation-object-reused")
			}
			mode := s.Choose(4, "mode") // 0 SpawnSync, 1 SpawnAsync+Wait, 2/3 SpawnAsync+Wait with a buffered/unbuffered onFinish read after the wait
			// in-history faults on an ordinary operation
			faultDesc := ""
			cancelArmed := false
			if !m.failed && len(op.failKinds) == 0 && pfault > 0 {
				switch f := s.Choose(100, "callfault"); {
				case f < pfault/2 && op.fn == "say":
					env.out.FailAt = env.out.Writes + 1
					op.failKinds = []string{"fatal:HostError"}
					faultDesc = " [host print error]"
				case f >= 50 && f < 50+pfault/2:
					kk := 1 + s.Choose(6, "cancel-at")
					env.ctx.CancelAt = env.ctx.Polls() + int64(kk)
					cancelArmed = true
					faultDesc = fmt.Sprintf(" [cancel at poll +%d]", kk)
				}
			}
			history = append(history, op.desc+faultDesc+fmt.Sprintf("/m%d", mode))
			inv, err := c16Invocation(prog, op.fn, op.args)
			if err != nil {
				failNow("infra", "", "", err.Error())
				return
			}
			if reuse && prevInv != nil {
				inv = *prevInv
			}
			{
				opc, invc := op, inv
				prev, prevInv = &opc, &invc
			}
			s.Logf("call #%d %s%s mode=%d", k, op.desc, faultDesc, mode)
			if m.failed {
				s.Probe("invocation-after-failure")
				s.ArmStepBound("call-after-failure", stepBoundAfterStop)
				s.SetDeadline("call-after-failure-returns", 2*time.Second)
			} else {
				s.SetDeadline("call-returns", 600*time.Second)
			}
			var result runtime.FunctionInvocationResult
			var core *runtime.Core
			if !m.failed && op.pure && len(op.failKinds) == 0 && !cancelArmed && s.Choose(5, "overlap") == 1 {
				// two invocations in flight at once: SpawnAsync twice, one Wait, then both results
				op2 := c16GenOp(s, m, 0, []int{3, 19, 13, 17, 18}[s.Choose(5, "op2")])
				inv2, err2 := c16Invocation(prog, op2.fn, op2.args)
				if err2 == nil && op2.pure {
					s.Probe("overlapping-invocations")
					history[len(history)-1] += " || " + op2.desc
					c1 := env.vm.SpawnAsync(inv, nil, nil, nil)
					c2 := env.vm.SpawnAsync(inv2, nil, nil, nil)
					num, i := env.vm.Wait()
					r1 := env.vm.HandleTermination(c1, inv, i, num)
					r2 := env.vm.HandleTermination(c2, inv2, i, num)
					if r2.Exception != nil {
						failNow("wrong-result", "call-result", op2.fn+":overlap-failed", fmt.Sprintf("overlapping call %s failed: %s", op2.desc, firstLine(r2.Exception.Interrupt.Message())))
						return
					}
					if msg := op2.check(r2.ReturnValue); msg != "" {
						failNow("wrong-result", "call-result", op2.fn+":overlap", fmt.Sprintf("overlapping call %s (in flight together with %s) %s", op2.desc, op.desc, msg))
						return
					}
					result = r1
					core = c1
					mode = -1
				}
			}
			switch mode {
			case -1:
			case 0:
				result = env.vm.SpawnSync(inv, nil, nil)
			default:
				var onFinish chan struct{}
				if mode == 2 {
					onFinish = make(chan struct{}, 1)
				}
				if mode == 3 {
					onFinish = make(chan struct{})
				}
				core = env.vm.SpawnAsync(inv, nil, nil, onFinish)
				num, i := env.vm.Wait()
				if onFinish != nil {
					// the notification arrives exactly once, and reading it only now must not have held anything up
					s.SetDeadline("onfinish-notification-arrives", 2*time.Second)
					simrt.Blocking()
					<-onFinish
					simrt.Woke()
					s.ClearDeadline("onfinish-notification-arrives")
					s.Probe("onfinish-read-after-wait")
				}
				result = env.vm.HandleTermination(core, inv, i, num)
			}
			s.ClearDeadline("call-after-failure-returns")
			s.ClearDeadline("call-returns")
			if m.failed {
				s.DisarmStepBound()
			}
			cancelFired := env.ctx.Fired()
			env.ctx.CancelAt = 0
			env.out.FailAt = 0
			got := "completed"
			if result.Exception != nil {
				got = classify(result.Exception.CoreNum, &result.Exception.Interrupt).Kind
			}
			s.Logf("call #%d -> %s", k, got)
			switch {
			case m.failed:
				// after the first failed call every later call returns a failure
				if result.Exception == nil {
					failNow("wrong-result", "failure-after-failure", "success:"+op.fn, fmt.Sprintf("call #%d %s succeeded although an earlier call of this history had failed", k, op.desc))
					return
				}
			case len(op.failKinds) > 0:
				ok := false
				for _, fk := range op.failKinds {
					ok = ok || fk == got
				}
				if !ok && !(cancelFired && got == "terminated") {
					failNow("wrong-result", "call-result", op.fn+":"+got, fmt.Sprintf("call #%d %s returned %s, expected %v", k, op.desc, got, op.failKinds))
					return
				}
				m.failed = true
				s.Fault("call-failed:" + got)
			case result.Exception != nil:
				if cancelArmed && cancelFired && got == "terminated" {
					m.failed = true
					s.Fault("call-cancelled")
					break
				}
				failNow("wrong-result", "call-result", op.fn+":"+got, fmt.Sprintf("call #%d %s failed with %s (%s); the model says it completes", k, op.desc, got, firstLine(result.Exception.Interrupt.Message())))
				return
			default:
				if msg := op.check(result.ReturnValue); msg != "" {
					failNow("wrong-result", "call-result", op.fn, fmt.Sprintf("call #%d %s %s", k, op.desc, msg))
					return
				}
				// What the host got is the host's: keep it (it must still be the same value at the end of the
				// history) or scribble on it (later calls must not see that).
				switch rv := result.ReturnValue.(type) {
				case value.ValueList:
					if s.Choose(2, "scribble") == 1 {
						*rv.Values = append(*rv.Values, value.NewValueInt(-424242))
						s.Probe("host-scribbled-on-returned-list")
					} else if d, derr := rv.Display(); derr == nil {
						held = append(held, heldValue{fmt.Sprintf("call #%d %s", k, op.desc), rv, d})
					}
				case value.ValueObject:
					if d, derr := rv.Display(); derr == nil {
						held = append(held, heldValue{fmt.Sprintf("call #%d %s", k, op.desc), rv, d})
					}
				}
				if op.apply != nil {
					op.apply(m)
				}
				if cancelArmed && cancelFired {
					// finished before the cancel was noticed: from now on the context is cancelled
					m.failed = true
					s.Fault("call-cancelled-late")
				}
			}
			// ---- cross-invariants after every call ----
			s.Settle(time.Second)
			if others := s.Others(); len(others) > 0 {
				var d, sites []string
				for _, o := range others {
					d = append(d, fmt.Sprintf("task %d %s at %s", o.ID, o.State, o.Site))
					sites = append(sites, o.State+"@"+o.Site)
				}
				sort.Strings(sites)
				if !m.failed {
					failNow("leftover-task", "no-residue-cores", strings.Join(dedupStr(sites), ","), fmt.Sprintf("after completed call #%d %s other tasks are still alive: %s", k, op.desc, strings.Join(d, "; ")))
					return
				}
				s.Probe("tasks-alive-after-failed-call")
			}
			if !m.failed {
				if nc, ok := vmCoreCount(env.vm); !ok {
					s.Probe("core-list-not-observable")
				} else if nc != 0 {
					failNow("wrong-result", "no-residue-cores", "core-list", fmt.Sprintf("after completed call #%d %s the VM still lists %d core(s)", k, op.desc, nc))
					return
				}
				if held := s.LocksHeld(); len(held) > 0 {
					failNow("wrong-result", "no-residue-locks", strings.Join(s.LockSites(), ","), fmt.Sprintf("after completed call #%d %s a lock is still held: %v", k, op.desc, held))
					return
				}
				if msg := c16Globals(env, prog, m); msg != "" {
					failNow("wrong-result", "globals", op.fn, fmt.Sprintf("after call #%d %s: %s", k, op.desc, msg))
					return
				}
				if d := diffMultiset(multiset(env.out.Lines()), m.lines); d != "" {
					failNow("wrong-result", "output", op.fn, fmt.Sprintf("after call #%d %s output differs from the model: %s", k, op.desc, d))
					return
				}
				if core != nil {
					// residue of the finished core: probe only (a dead core cannot change a later call)
					if call, _, mem, handlers, ok := coreLevels(core); ok {
						if call != 0 {
							s.Probe("residue-callstack")
						}
						if handlers != 0 {
							s.Probe("residue-handlers")
						}
						if mem != 0 {
							s.Probe("residue-mempointer")
						}
					}
				}
			} else if held := s.LocksHeld(); len(held) > 0 {
				s.Probe("lock-held-after-failed-call")
			}
		}
	})
	v.absorb(P, res)
	v.Output = history
	if v.Class == "deadlock" || v.Class == "runaway" {
		v.Msg += " | history: " + strings.Join(history, "; ")
	}
	if v.Class != "" {
		return v
	}
	if viol != nil {
		viol()
		return v
	}
	return v
}

// runC16Residency: "a completed call leaves nothing behind ... cores": 150 calls on one VM whose cores are
// large (MaxMemorySize 300000); the Go heap that is still reachable afterwards must not have grown by
// anything like 150 cores' worth.
func runC16Residency(t *testing.T, spec RunSpec, prog *compiled) *Verdict {
	const P = "C16"
	v := &Verdict{}
	env := newVMEnv(prog, runtime.CoreLimits{CallStackMaxSize: 64, StackMaxSize: 400, MaxMemorySize: 300000})
	var before, after goruntime.MemStats
	calls := 150
	bad := ""
	res := simrt.Run(t, simConfig(spec.Sim), simSource(spec), func(s *simrt.Sim) {
		env.boot()
		env.ctx.ResetPolls()
		call := func(k int) bool {
			inv, err := c16Invocation(prog, "sum3", []value.Value{vInt(int64(k % 10)), vInt(1), vInt(2)})
			if err != nil {
				bad = err.Error()
				return false
			}
			var r runtime.FunctionInvocationResult
			if k%2 == 0 {
				r = env.vm.SpawnSync(inv, nil, nil)
			} else {
				c := env.vm.SpawnAsync(inv, nil, nil, nil)
				num, i := env.vm.Wait()
				r = env.vm.HandleTermination(c, inv, i, num)
			}
			if r.Exception != nil {
				bad = "call failed: " + firstLine(r.Exception.Interrupt.Message())
				return false
			}
			if msg := wantInt(int64(k%10)*100 + 12)(r.ReturnValue); msg != "" {
				bad = msg
				return false
			}
			return true
		}
		for k := 0; k < 10; k++ {
			if !call(k) {
				return
			}
		}
		s.Settle(time.Second)
		goruntime.GC()
		goruntime.ReadMemStats(&before)
		for k := 0; k < calls; k++ {
			if !call(k) {
				return
			}
		}
		s.Settle(time.Second)
		goruntime.GC()
		goruntime.GC()
		goruntime.ReadMemStats(&after)
		goruntime.KeepAlive(env) // (the VM is still in use: what it holds on to counts)
	})
	v.absorb(P, res)
	if v.Class != "" {
		return v
	}
	if bad != "" {
		v.fail(P, "wrong-result", "call-result", "residency:"+clip(bad), "marathon of identical calls: "+bad)
		return v
	}
	grown := int64(after.HeapAlloc) - int64(before.HeapAlloc)
	v.Probes = map[string]int{"residency-heap-growth-kib": int(grown / 1024)}
	if grown > 96<<20 {
		v.fail(P, "wrong-result", "no-residue-cores", "go-heap", fmt.Sprintf("after %d completed calls on one VM (MaxMemorySize 300000) the reachable Go heap has grown by %d MiB: what finished cores held is not given back", calls, grown>>20))
	}
	return v
}

func c16Globals(env *vmEnv, prog *compiled, m *c16Model) string {
	g := env.vm.GetGlobals()
	cm, ok := prog.out.Mappings.Globals["counter"]
	if !ok {
		return "global `counter` has no mapping"
	}
	cv, ok := g[cm].(value.ValueInt)
	if !ok || cv.Inner != m.counter {
		return fmt.Sprintf("global counter is %v, model says %d", g[cm], m.counter)
	}
	lm := prog.out.Mappings.Globals["hist"]
	lv, ok := g[lm].(value.ValueList)
	if !ok {
		return fmt.Sprintf("global log is %T", g[lm])
	}
	if len(*lv.Values) != len(m.log) {
		return fmt.Sprintf("global log has %d elements, model says %d", len(*lv.Values), len(m.log))
	}
	for i, e := range *lv.Values {
		iv, ok := (*e).(value.ValueInt)
		if !ok || iv.Inner != m.log[i] {
			return fmt.Sprintf("global log[%d] differs from the model", i)
		}
	}
	return ""
}

func planC16(t *testing.T, tier string, seed uint64) ([]RunSpec, error) {
	var plan []RunSpec
	n := 1600
	if !quick(tier) {
		n = 600000
	}
	for i := 0; i < n; i++ {
		s := RunSpec{Property: "C16", Workload: "c16/history", Params: map[string]int{"len": []int{3, 6, 12, 30}[i%4], "pfault": []int{0, 10, 10, 25}[(i/4)%4]}}
		if s.Params["pfault"] == 0 {
			s.Workload = "c16/history-faultfree"
		}
		s.Sim = swarm(seed, i)
		if i%5 == 4 {
			s.Sim = withPCT(s.Sim, seed, i)
		}
		s.Sim.POther = 1 // operations, arguments and modes are drawn uniformly
		s.Seed = runSeed(seed, i)
		plan = append(plan, s)
	}
	// what finished cores held is given back (Go heap after many calls with large cores)
	for i := 0; i < 2; i++ {
		s := RunSpec{Property: "C16", Workload: "c16/residency", Params: map[string]int{"residency": 1}}
		s.Sim = SimParams{StepCostNs: 100}
		s.Choices = &simrt.Sparse{}
		if i == 1 {
			s.Choices = nil
			s.Sim = swarm(seed, 7*n+i)
			s.Seed = runSeed(seed, 7*n+i)
		}
		plan = append(plan, s)
	}
	// marathons: hundreds of calls on one VM ("repeatedly on the same VM" has no upper bound)
	nm := 8
	if !quick(tier) {
		nm = 600
	}
	for i := 0; i < nm; i++ {
		s := RunSpec{Property: "C16", Workload: "c16/history-marathon", Params: map[string]int{"len": 330, "pfault": 0}}
		if i%2 == 1 {
			s.Workload = "c16/history-marathon-fanout"
			s.Params = map[string]int{"len": 140, "pfault": 0, "force_op": []int{11, 15}[(i/2)%2]}
		}
		s.Sim = swarm(seed, 5*n+i)
		s.Sim.StepCostNs = 100
		s.Sim.POther = 1
		s.Seed = runSeed(seed, 5*n+i)
		plan = append(plan, s)
	}
	// histories over generated pure functions (result must equal the fresh-VM result)
	ng := 300
	if !quick(tier) {
		ng = 100000
	}
	for i := 0; i < ng; i++ {
		s := RunSpec{Property: "C16", Workload: "c16/history-generated", Params: map[string]int{"len": 8, "gen": 1 + int(simrt.Mix(seed, uint64(i/5), 0x16)%1000000)}}
		s.Sim = swarm(seed, 2*n+i)
		s.Sim.POther = 1
		s.Seed = runSeed(seed, 2*n+i)
		plan = append(plan, s)
	}
	// directed histories: the spawning entry points over and over (cores finishing while others are spawned)
	nd := 400
	if !quick(tier) {
		nd = 200000
	}
	for i := 0; i < nd; i++ {
		s := RunSpec{Property: "C16", Workload: "c16/history-fanout", Params: map[string]int{"len": 4, "pfault": 0, "force_op": []int{11, 15}[i%2]}}
		s.Sim = swarm(seed, n+i)
		s.Sim.StepCostNs = []int64{1000, 10000, 100000}[i%3]
		s.Sim.POther = 1
		s.Seed = runSeed(seed, n+i)
		plan = append(plan, s)
	}
	return plan, nil
}
