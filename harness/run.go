package harness

import (
	"encoding/json"
	"fmt"
	"sort"
	"strings"
	"testing"
	"time"

	"verif.local/simrt"
)

// SimParams fixes the simulator configuration of one run (swarm: varied per run).
type SimParams struct {
	StepCostNs int64   `json:"step_cost_ns"`
	Quantum    []int64 `json:"quantum,omitempty"` // quantum table; empty = sync points only
	ClockJumps bool    `json:"clock_jumps,omitempty"`
	MapPerm    bool    `json:"map_perm,omitempty"`
	MapSites   []string `json:"map_sites,omitempty"` // restrict non-default orders to these sites (nil = all)
	PSched     float64 `json:"p_sched"`
	PQuantum   float64 `json:"p_quantum,omitempty"`
	PPerm      float64 `json:"p_perm,omitempty"`
	POther     float64 `json:"p_other,omitempty"`
	// PCTDepth > 0: the schedule comes from priority-based search of that depth over PCTHorizon decisions
	PCTDepth   int `json:"pct_depth,omitempty"`
	PCTHorizon int `json:"pct_horizon,omitempty"`
}

// RunSpec identifies one simulated run completely: replaying it is a pure
// function of the spec and the code.
type RunSpec struct {
	Property string         `json:"property"`
	Workload string         `json:"workload"`
	Params   map[string]int `json:"params,omitempty"`
	Fault    map[string]int `json:"fault,omitempty"`
	Sim      SimParams      `json:"sim"`
	Seed     uint64         `json:"seed"`
	Choices  *simrt.Sparse  `json:"choices,omitempty"` // replay vector; nil = search from Seed
}

func (r RunSpec) P(k string, def int) int {
	if v, ok := r.Params[k]; ok {
		return v
	}
	return def
}
func (r RunSpec) F(k string, def int) int {
	if v, ok := r.Fault[k]; ok {
		return v
	}
	return def
}

func (r RunSpec) Key() string {
	c := r
	c.Seed = 0
	c.Choices = nil
	c.Sim = SimParams{}
	b, _ := json.Marshal(c)
	return string(b)
}

func (r RunSpec) clone() RunSpec {
	c := r
	c.Params = map[string]int{}
	for k, v := range r.Params {
		c.Params[k] = v
	}
	c.Fault = map[string]int{}
	for k, v := range r.Fault {
		c.Fault[k] = v
	}
	if r.Choices != nil {
		sp := *r.Choices
		sp.NZ = append([][2]int(nil), sp.NZ...)
		c.Choices = &sp
	}
	c.Sim.MapSites = append([]string(nil), r.Sim.MapSites...)
	return c
}

// Verdict of one run.
type Verdict struct {
	Class  string `json:"class,omitempty"`  // "" = held; deadlock | host-crash | runaway | leftover-task | wrong-result | order-dependence | data-race | infra
	Clause string `json:"clause,omitempty"` // oracle clause
	Msg    string `json:"msg,omitempty"`
	Sig    string `json:"sig,omitempty"` // property|class|clause|culprit — stable names only

	LogHash   string         `json:"log_hash,omitempty"`
	SwitchSeq string         `json:"switch_seq,omitempty"`
	Decisions int            `json:"decisions,omitempty"`
	Switches  int            `json:"switches,omitempty"`
	Steps     int64          `json:"steps,omitempty"`
	SimNs     int64          `json:"sim_ns,omitempty"`
	Tasks     int            `json:"tasks,omitempty"`
	Faults    map[string]int `json:"faults,omitempty"`
	Probes    map[string]int `json:"probes,omitempty"`
	Choices   []int          `json:"-"`
	Tags      []string       `json:"-"`
	Ns        []int          `json:"-"`
	LogTail   []string       `json:"-"`
	Output    []string       `json:"-"`
	MapSites  map[string]int `json:"-"`
	Extra     map[string]any `json:"-"`
}

func (v *Verdict) Bad() bool   { return v.Class != "" && v.Class != "infra" }
func (v *Verdict) Infra() bool { return v.Class == "infra" }

func (v *Verdict) fail(prop, class, clause, culprit, msg string) {
	if v.Class != "" {
		return
	}
	v.Class, v.Clause, v.Msg = class, clause, msg
	v.Sig = prop + "|" + class + "|" + clause + "|" + culprit
}

func simConfig(sp SimParams) simrt.Config {
	cfg := simrt.DefaultConfig()
	if sp.StepCostNs > 0 {
		cfg.StepCost = time.Duration(sp.StepCostNs)
	}
	cfg.QuantumTable = sp.Quantum
	cfg.ClockJumps = sp.ClockJumps
	cfg.MapPerm = sp.MapPerm
	if sp.MapSites != nil {
		cfg.MapSites = map[string]bool{}
		for _, s := range sp.MapSites {
			cfg.MapSites[s] = true
		}
	}
	return cfg
}

func simSource(spec RunSpec) simrt.Source {
	if spec.Choices != nil {
		return &simrt.ReplaySource{Vals: spec.Choices.Dense()}
	}
	po := spec.Sim.POther
	if spec.Sim.PCTDepth > 0 {
		h := spec.Sim.PCTHorizon
		if h <= 0 {
			h = 200
		}
		return simrt.NewPCT(spec.Seed, spec.Sim.PCTDepth, h, simrt.Strategy{
			Name:    "pct",
			P:       map[string]float64{"quantum": spec.Sim.PQuantum, "perm": spec.Sim.PPerm},
			Default: po,
		})
	}
	return simrt.NewSearch(spec.Seed, simrt.Strategy{
		Name:    "walk",
		P:       map[string]float64{"sched": spec.Sim.PSched, "quantum": spec.Sim.PQuantum, "perm": spec.Sim.PPerm},
		Default: po,
	})
}

// absorb copies the simulator's result into the verdict and maps simulator
// outcomes to violation classes common to all properties.
func (v *Verdict) absorb(prop string, res *simrt.Result) {
	v.LogHash = res.LogHash
	v.SwitchSeq = res.SwitchSeq
	v.Decisions = res.Decisions
	v.Switches = res.Switches
	v.Steps = res.Steps
	v.SimNs = int64(res.SimTime)
	v.Tasks = len(res.Tasks)
	v.Faults = res.Faults
	v.Probes = res.Probes
	v.LogTail = res.LogTail
	v.Choices = make([]int, len(res.Choices))
	v.Tags = make([]string, len(res.Choices))
	v.Ns = make([]int, len(res.Choices))
	for i, c := range res.Choices {
		v.Choices[i] = c.V
		v.Tags[i] = c.Tag
		v.Ns[i] = c.N
	}
	switch res.Outcome {
	case "ok":
	case "deadlock":
		v.fail(prop, "deadlock", "no-deadlock", res.Sig, res.Detail)
	case "crash":
		v.fail(prop, "host-crash", "no-host-crash", res.Sig, res.Detail)
	case "runaway":
		v.fail(prop, "runaway", "bounded-steps", res.Sig, res.Detail)
	case "deadline":
		v.fail(prop, "runaway", "bounded-time", res.Sig, res.Detail)
	default:
		v.fail(prop, "infra", "", "", res.Outcome+": "+res.Detail)
	}
}

// leftover reports tasks that are not done after the host returned and the
// scheduler drained ("no core is left running or blocked behind it").
func (v *Verdict) leftover(prop string, res *simrt.Result) {
	if v.Class != "" || len(res.Leftover) == 0 {
		return
	}
	var sites, desc []string
	for _, l := range res.Leftover {
		site := l.State
		if l.Site != "" && l.Site != "external" {
			site += "@" + l.Site
		} else if len(l.Stack) > 0 {
			site += "@" + l.Stack[0]
		}
		sites = append(sites, site)
		desc = append(desc, fmt.Sprintf("task %d (%s) %s", l.ID, l.Name, site))
	}
	sort.Strings(sites)
	v.fail(prop, "leftover-task", "all-cores-done-after-wait", strings.Join(dedupStr(sites), ","), "tasks left behind after the host's wait returned and the scheduler drained: "+strings.Join(desc, "; "))
}

func dedupStr(s []string) []string {
	var out []string
	for i, x := range s {
		if i == 0 || x != s[i-1] {
			out = append(out, x)
		}
	}
	return out
}

// runner executes one spec.
type runner func(t *testing.T, spec RunSpec) *Verdict

var runners = map[string]runner{}

func Execute(t *testing.T, spec RunSpec) *Verdict {
	r, ok := runners[spec.Property]
	if !ok {
		return &Verdict{Class: "infra", Msg: "no runner for " + spec.Property}
	}
	return r(t, spec)
}

func multiset(lines []string) map[string]int {
	m := map[string]int{}
	for _, l := range lines {
		m[l]++
	}
	return m
}

// diffMultiset describes got vs want ("" when equal).
func diffMultiset(got, want map[string]int) string {
	var keys []string
	for k := range got {
		keys = append(keys, k)
	}
	for k := range want {
		if _, ok := got[k]; !ok {
			keys = append(keys, k)
		}
	}
	sort.Strings(keys)
	var d []string
	for _, k := range keys {
		if got[k] != want[k] {
			d = append(d, fmt.Sprintf("%q: got %d want %d", k, got[k], want[k]))
		}
		if len(d) >= 6 {
			d = append(d, "...")
			break
		}
	}
	return strings.Join(d, "; ")
}
