package harness

// C17 — spawned threads run to completion, are waited for, and do not race.

import (
	"fmt"
	"sort"
	"strings"
	"testing"
	"time"

	"github.com/smarthome-go/homescript/v3/homescript/runtime"
	"github.com/smarthome-go/homescript/v3/homescript/runtime/value"
	"verif.local/simrt"
)

func init() { runners["C17"] = runC17 }

// c17Workload builds a program and its model from the spec parameters.
//
//	shape 0 fanout      n workers, distinct scalar/string args that main overwrites right after each spawn
//	shape 1 nested      workers spawn sub-workers
//	shape 2 spawnloop   main spawns in a loop while earlier (short) workers finish
//	shape 3 fatal       worker `bad` fails fatally at iteration `at`; the others loop, sleep or print
//	shape 4 globals     workers read/write scalar globals and print
//	shape 5 trycatch    workers throw and catch internally
//	shape 6 manyargs    0 and many arguments (order)
//
// main_late: 0 main returns right after the spawns, 1 main counts first, 2 main sleeps first.
type c17Model struct {
	prog      Program
	lines     map[string]int // exact multiset expected on normal completion
	finals    []string       // every worker's final line
	fatal     bool
	badCores  map[uint]bool  // cores whose fatal interrupt may be reported
	badKinds  map[string]bool
	prefixOK  map[string]bool // lines that may or may not appear when the run ends by a fatal interrupt
	endless   bool
	failMsgByCore bool // the failing worker's message names its id (= core number - 2)
	genCalls  [][3]int // shape 10: (worker id, function, argument)
	genSrc    string
	genSeed   uint64
	records   [][]string // groups of lines that one print produces: they must stay together in the output
	chunked   bool // output is compared write by write (the workers' last output has no newline)
	handshake bool // cores wait for each other's writes to globals: must complete within a step bound under fair scheduling
}

func c17Workload(spec RunSpec) c17Model {
	n := spec.P("n", 3)
	iters := spec.P("iters", 2)
	late := spec.P("main_late", 0)
	shape := spec.P("shape", 0)
	var b strings.Builder
	m := c17Model{lines: map[string]int{}, badCores: map[uint]bool{}, badKinds: map[string]bool{}, prefixOK: map[string]bool{}}
	add := func(l string) { m.lines[l]++ }
	tail := func() {
		switch late {
		case 1:
			b.WriteString("    let c = 0;\n    while c < 300 { c = c + 1; }\n")
		case 2:
			b.WriteString("    time.sleep(0.03);\n")
		}
		b.WriteString("    println(\"main done\");\n}\n")
		add("main done")
	}
	worker := `fn worker(id: int, tag: str, n: int) {
    for i in 0..n {
        println("w", id, tag, i);
    }
    println("w", id, "done");
}
`
	workerLines := func(id int, tag string, k int) {
		for i := 0; i < k; i++ {
			add(fmt.Sprintf("w %d %s %d", id, tag, i))
		}
		f := fmt.Sprintf("w %d done", id)
		add(f)
		m.finals = append(m.finals, f)
	}
	switch shape {
	case 0:
		b.WriteString(worker)
		b.WriteString("fn main() {\n    let a = 0;\n    let s = \"t0\";\n    let k = 0;\n")
		for i := 0; i < n; i++ {
			k := (i+iters)%3 + 1
			fmt.Fprintf(&b, "    a = %d; s = \"t%d\"; k = %d;\n    spawn worker(a, s, k);\n    a = -1; s = \"overwritten\"; k = 0;\n", i, i, k)
			workerLines(i, fmt.Sprintf("t%d", i), k)
		}
		tail()
	case 1:
		b.WriteString(worker)
		b.WriteString(`fn outer(id: int, m: int) {
    for j in 0..m {
        spawn worker(id * 10 + j, "n", 1);
    }
    println("o", id, "done");
}
`)
		b.WriteString("fn main() {\n")
		for i := 0; i < n; i++ {
			sub := i%3 + 1
			fmt.Fprintf(&b, "    spawn outer(%d, %d);\n", i+1, sub)
			for j := 0; j < sub; j++ {
				workerLines((i+1)*10+j, "n", 1)
			}
			f := fmt.Sprintf("o %d done", i+1)
			add(f)
			m.finals = append(m.finals, f)
		}
		tail()
	case 2:
		b.WriteString(worker)
		fmt.Fprintf(&b, "fn main() {\n    for i in 0..%d {\n        spawn worker(i, \"L\", %d);\n", n, iters%2)
		if late == 2 {
			b.WriteString("        time.sleep(0.006);\n")
		}
		b.WriteString("    }\n")
		for i := 0; i < n; i++ {
			workerLines(i, "L", iters%2)
		}
		tail()
	case 3:
		m.fatal = true
		at := spec.P("at", 1)
		kind := spec.P("fail_kind", 0)
		b.WriteString("let g = 0;\n")
		b.WriteString(worker)
		fail := "let z = 0;\n            println(1 / z);"
		m.failMsgByCore = false
		m.badKinds["fatal:ValueError"] = true
		if kind == 1 {
			fail = "throw(\"boom\" + id.to_string());"
			m.badKinds = map[string]bool{"fatal:UncaughtThrow": true}
			m.failMsgByCore = true
		}
		if kind == 2 {
			fail = "throw(\"boom\" + id.to_string());"
			m.badKinds = map[string]bool{"fatal:UncaughtThrow": true}
			m.failMsgByCore = true
		}
		fmt.Fprintf(&b, `fn bad(id: int, at: int) {
    for i in 0..100 {
        if i == at {
            %s
        }
        println("b", id, i);
    }
}
fn looper(id: int) {
    loop { g = g + 1; }
}
fn sleeper(id: int) {
    time.sleep(500.0);
    println("s", id, "done");
}
`, fail)
		b.WriteString("fn main() {\n")
		nbad := spec.P("nbad", 1)
		for i := 0; i < n; i++ {
			switch {
			case i < nbad:
				m.badCores[uint(2+i)] = true
				fmt.Fprintf(&b, "    spawn bad(%d, %d);\n", i, at+i)
				for k := 0; k < at+i; k++ {
					m.prefixOK[fmt.Sprintf("b %d %d", i, k)] = true
				}
			case i%3 == 0:
				fmt.Fprintf(&b, "    spawn looper(%d);\n", i)
			case i%3 == 1:
				fmt.Fprintf(&b, "    spawn sleeper(%d);\n", i)
			default:
				fmt.Fprintf(&b, "    spawn worker(%d, \"f\", 2);\n", i)
				for k := 0; k < 2; k++ {
					m.prefixOK[fmt.Sprintf("w %d f %d", i, k)] = true
				}
				m.prefixOK[fmt.Sprintf("w %d done", i)] = true
			}
		}
		m.prefixOK["main done"] = true
		tail()
		m.lines = map[string]int{}
	case 4:
		b.WriteString("let g = 0;\nlet h = \"x\";\n")
		b.WriteString(`fn gw(id: int, n: int) {
    for i in 0..n {
        g = g + 1;
        h = "w";
        if g < 0 { println("negative"); }
        println("gw", id, i);
    }
    println("gw", id, "done");
}
`)
		b.WriteString("fn main() {\n")
		for i := 0; i < n; i++ {
			fmt.Fprintf(&b, "    spawn gw(%d, %d);\n", i, iters)
			for k := 0; k < iters; k++ {
				add(fmt.Sprintf("gw %d %d", i, k))
			}
			f := fmt.Sprintf("gw %d done", i)
			add(f)
			m.finals = append(m.finals, f)
		}
		b.WriteString("    g = g + 100;\n")
		tail()
	case 5:
		b.WriteString(`fn tw(id: int, n: int) {
    for i in 0..n {
        try {
            if i % 2 == 0 { throw("e" + id.to_string()); }
            println("tw", id, "nothrow", i);
        } catch e {
            println("tw", id, "caught", e.message, i);
        }
    }
    println("tw", id, "done");
}
`)
		b.WriteString("fn main() {\n")
		for i := 0; i < n; i++ {
			fmt.Fprintf(&b, "    spawn tw(%d, %d);\n", i, iters)
			for k := 0; k < iters; k++ {
				if k%2 == 0 {
					add(fmt.Sprintf("tw %d caught e%d %d", i, i, k))
				} else {
					add(fmt.Sprintf("tw %d nothrow %d", i, k))
				}
			}
			f := fmt.Sprintf("tw %d done", i)
			add(f)
			m.finals = append(m.finals, f)
		}
		tail()
	case 14:
		// every print produces a record of three lines: a record of one core is never torn apart by another
		b.WriteString(`fn rec(id: int, n: int) {
    for k in 0..n {
        print("<", id, k, "\n", "mid", id, k, "\n", id, k, ">\n");
    }
}
`)
		b.WriteString("fn main() {\n")
		for i := 0; i <= n; i++ {
			k := 1 + (i+iters)%3
			if i < n {
				fmt.Fprintf(&b, "    spawn rec(%d, %d);\n", i, k)
			} else {
				fmt.Fprintf(&b, "    rec(%d, %d);\n", i, k)
			}
			for j := 0; j < k; j++ {
				r := []string{fmt.Sprintf("< %d %d ", i, j), fmt.Sprintf(" mid %d %d ", i, j), fmt.Sprintf(" %d %d >", i, j)}
				m.records = append(m.records, r)
				for _, l := range r {
					add(l)
				}
				if j == k-1 {
					m.finals = append(m.finals, r[2])
				}
			}
		}
		b.WriteString("}\n")
	case 13:
		// tiny leaf functions spawned while a try of the parent is active; one of them throws: that is the
		// thread's uncaught exception (a fatal interrupt of its core), never something the parent catches
		m.fatal = true
		m.badKinds = map[string]bool{"fatal:UncaughtThrow": true}
		b.WriteString(`let seen = 0;
fn leaf(level: int) { if level > 3 { throw("level out of range"); } }
fn note(level: int) { seen = seen + level; }
`)
		b.WriteString("fn main() {\n    try {\n")
		for i := 0; i < n; i++ {
			if i == n-1 {
				b.WriteString("        spawn leaf(9);\n")
			} else {
				fmt.Fprintf(&b, "        spawn note(%d);\n        spawn leaf(%d);\n", i, i%3)
			}
		}
		b.WriteString("    } catch e {\n        println(\"caught by the parent\");\n    }\n    println(\"main goes on\");\n")
		switch late {
		case 1:
			b.WriteString("    let c = 0;\n    while c < 300 { c = c + 1; }\n")
		case 2:
			b.WriteString("    time.sleep(0.03);\n")
		}
		b.WriteString("}\n")
		m.prefixOK["main goes on"] = true
	case 12:
		// the last thing every worker writes is a print without a newline (several arguments, one write)
		m.chunked = true
		b.WriteString(`fn pw(id: int, n: int) {
    for i in 0..n { println("pw", id, i); }
    print("<pw", id, "done>");
}
`)
		b.WriteString("fn main() {\n")
		for i := 0; i < n; i++ {
			k := (i + iters) % 3
			fmt.Fprintf(&b, "    spawn pw(%d, %d);\n", i, k)
			for j := 0; j < k; j++ {
				add(fmt.Sprintf("pw %d %d\n", i, j))
			}
			f := fmt.Sprintf("<pw %d done>", i)
			add(f)
			m.finals = append(m.finals, f)
		}
		switch late {
		case 1:
			b.WriteString("    let c = 0;\n    while c < 300 { c = c + 1; }\n")
		case 2:
			b.WriteString("    time.sleep(0.03);\n")
		}
		b.WriteString("    print(\"<main done>\");\n}\n")
		add("<main done>")
	case 11:
		// arities 1, 2, 3, 5, 7 and argument types float, bool false, empty string; spawn used in a let
		b.WriteString(`fn a1(x: float) { println("a1", x); }
fn a2(id: int, e: str) { println("a2", id, "[" + e + "]"); }
fn a3(id: int, b: bool, f: float) { println("a3", id, b, f); }
fn a5(a: int, b: int, c: int, d: int, e: int) { println("a5", a, b, c, d, e); }
fn a7(a: int, b: str, c: bool, d: float, e: int, f: str, g: int) { println("a7", a, b, c, d, e, f, g); }
`)
		b.WriteString("fn main() {\n")
		for i := 0; i < n; i++ {
			switch i % 5 {
			case 0:
				fmt.Fprintf(&b, "    let h%d = spawn a1(%d.5);\n", i, i)
				add(fmt.Sprintf("a1 %d.5", i))
			case 1:
				fmt.Fprintf(&b, "    spawn a2(%d, \"\");\n", i)
				add(fmt.Sprintf("a2 %d []", i))
			case 2:
				fmt.Fprintf(&b, "    let h%d = spawn a3(%d, false, 0.25);\n", i, i)
				add(fmt.Sprintf("a3 %d false 0.25", i))
			case 3:
				fmt.Fprintf(&b, "    spawn a5(%d, %d, %d, %d, %d);\n", i, i+1, i+2, i+3, i+4)
				add(fmt.Sprintf("a5 %d %d %d %d %d", i, i+1, i+2, i+3, i+4))
			default:
				fmt.Fprintf(&b, "    spawn a7(%d, \"s\", true, 1.5, %d, \"\", %d);\n", i, -i, i*2)
				add(fmt.Sprintf("a7 %d s true 1.5 %d  %d", i, -i, i*2))
			}
		}
		for l := range m.lines {
			m.finals = append(m.finals, l)
		}
		tail()
	case 10:
		// generated pure functions as thread bodies: each worker prints f(arg); the expected value is what
		// the same function returns when it runs alone (computed on a fresh single-core VM, cached)
		gs := uint64(1 + spec.P("g", 1))
		src := genFunctions(gs, 3)
		b.WriteString(src)
		b.WriteString("fn gwk(id: int, which: int, arg: int) {\n    let r = 0;\n    if which == 0 { r = e0(arg); } else { if which == 1 { r = e1(arg); } else { r = e2(arg); } }\n    println(\"gwk\", id, r);\n}\n")
		b.WriteString("fn main() {\n")
		for i := 0; i < n; i++ {
			which, arg := i%3, (i*7+iters)%13
			fmt.Fprintf(&b, "    spawn gwk(%d, %d, %d);\n", i, which, arg)
			m.genCalls = append(m.genCalls, [3]int{i, which, arg})
		}
		m.genSrc = src
		m.genSeed = gs
		tail()
	case 9:
		// every core counts in a global of its own: nobody else writes it, so the final value is exact
		for i := 0; i < n; i++ {
			fmt.Fprintf(&b, "let own%d = 0;\n", i)
		}
		cnt := 20 + 15*iters
		for i := 0; i < n; i++ {
			fmt.Fprintf(&b, "fn ow%d(n: int) {\n    for i in 0..n { own%d = own%d + 1; }\n    println(\"ow\", %d, own%d);\n}\n", i, i, i, i, i)
		}
		b.WriteString("fn main() {\n")
		for i := 0; i < n; i++ {
			fmt.Fprintf(&b, "    spawn ow%d(%d);\n", i, cnt)
			f := fmt.Sprintf("ow %d %d", i, cnt)
			add(f)
			m.finals = append(m.finals, f)
		}
		tail()
	case 8:
		// arguments taken from object members and list elements that the parent overwrites right after the spawn
		b.WriteString(`fn mw(id: int, a: int, s: str, e: int) {
    let c = 0;
    while c < 40 { c = c + 1; }
    println("mw", id, a, s, e);
    println("mw", id, "done");
}
`)
		b.WriteString("fn main() {\n    let o = new { a: 0, s: \"s\" };\n    let l = [0, 0, 0];\n")
		for i := 0; i < n; i++ {
			fmt.Fprintf(&b, "    o.a = %d; o.s = \"s%d\"; l[%d] = %d;\n    spawn mw(%d, o.a, o.s, l[%d]);\n    o.a = -1; o.s = \"overwritten\"; l[%d] = -7;\n", i+10, i, i%3, i+20, i, i%3, i%3)
			add(fmt.Sprintf("mw %d %d s%d %d", i, i+10, i, i+20))
			f := fmt.Sprintf("mw %d done", i)
			add(f)
			m.finals = append(m.finals, f)
		}
		tail()
	case 7:
		// handshake through globals: every core waits for values written by another one
		rounds := 3 + iters*2
		b.WriteString("let ping = 0;\nlet pong = 0;\n")
		fmt.Fprintf(&b, `fn hw(id: int, n: int, rounds: int) {
    for r in 0..rounds {
        while ping <= r { }
        while pong %% n != id { }
        pong = pong + 1;
    }
    println("hw", id, "done");
}
`)
		fmt.Fprintf(&b, "fn main() {\n    for i in 0..%d { spawn hw(i, %d, %d); }\n    for r in 0..%d {\n        ping = r + 1;\n        while pong < (r + 1) * %d { }\n    }\n", n, n, rounds, rounds, n)
		for i := 0; i < n; i++ {
			f := fmt.Sprintf("hw %d done", i)
			add(f)
			m.finals = append(m.finals, f)
		}
		m.handshake = true
		tail()
	case 6:
		b.WriteString(`fn zero() {
    println("zero done");
}
fn many(a: int, b: str, c: int, d: str, e: bool, f: int) {
    println("many", a, b, c, d, e, f);
    println("many", a, "done");
}
`)
		b.WriteString("fn main() {\n    let x = 1;\n    let y = \"p\";\n")
		for i := 0; i < n; i++ {
			if i%2 == 0 {
				b.WriteString("    spawn zero();\n")
				add("zero done")
				m.finals = append(m.finals, "zero done")
			} else {
				fmt.Fprintf(&b, "    x = %d; y = \"q%d\";\n    spawn many(x, y, x + 1, y + \"!\", x > 2, 0 - x);\n    x = 0; y = \"\";\n", i, i)
				add(fmt.Sprintf("many %d q%d %d q%d! %v %d", i, i, i+1, i, i > 2, -i))
				f := fmt.Sprintf("many %d done", i)
				add(f)
				m.finals = append(m.finals, f)
			}
		}
		tail()
	}
	m.prog = Single(b.String())
	return m
}

func runC17(t *testing.T, spec RunSpec) *Verdict {
	const P = "C17"
	v := &Verdict{}
	if spec.P("free", 0) == 1 {
		return v // free-mode specs run in the -race binary (execFree), never inline
	}
	if k := spec.P("reject", -1); k >= 0 {
		// a closure that captures a local must never reach another thread: the analyzer rejects it
		src := c17ClosurePrograms[k%len(c17ClosurePrograms)]
		p := Single(src)
		a := Analyze(p, NewProvider(p.Modules))
		if a.PanicMsg == "" && len(a.Syntax) == 0 && a.Errors == 0 {
			v.fail(P, "wrong-result", "closures-not-sent-to-threads", fmt.Sprintf("closure-program-%d", k), "a program that passes a closure capturing a local to `spawn` was accepted without an error diagnostic:\n"+src)
		}
		v.Extra = map[string]any{"source": src}
		return v
	}
	m := c17Workload(spec)
	prog, err := MustCompile(m.prog)
	if err != nil {
		v.fail(P, "infra", "", "", "workload does not compile: "+err.Error()+"\n"+m.prog.Modules["main"])
		return v
	}
	for _, c := range m.genCalls {
		val, gerr := genReference(t, m.genSeed, m.genSrc, c[1], c[2])
		if gerr != "" {
			if strings.Contains(gerr, "does not compile") {
				v.Probes = map[string]int{"generated-program-rejected": 1}
				return v
			}
			v.fail(P, "infra", "", "", "reference call of generated function failed: "+gerr)
			return v
		}
		l := fmt.Sprintf("gwk %d %d", c[0], val)
		m.lines[l]++
		m.finals = append(m.finals, l)
	}
	env := newVMEnv(prog, generousLimits)
	anyCore := false
	if pf := spec.F("print_fail_at", 0); pf > 0 {
		// fault: the host's n-th write fails; the printing core dies with a host error,
		// Wait reports it and cancels the rest
		env.out.FailAt = pf
		m.fatal = true
		anyCore = true
		m.badKinds = map[string]bool{"fatal:HostError": true}
		m.prefixOK = map[string]bool{}
		for l := range m.lines {
			m.prefixOK[l] = true
		}
	}
	var got outcome
	var atReturn []string
	returned := false
	// twin: a second, independent VM runs another program in the same process at the same time; neither
	// may notice the other (nothing in the properties is "per process")
	var twinEnv *vmEnv
	var twinModel c17Model
	var twinGot outcome
	twinDone := false
	if spec.P("twin", 0) == 1 && !m.fatal && !m.handshake {
		ts := spec.clone()
		ts.Params = map[string]int{"shape": 0, "n": 2, "iters": 1, "main_late": 0}
		twinModel = c17Workload(ts)
		if tp, err := MustCompile(twinModel.prog); err == nil {
			twinEnv = newVMEnv(tp, generousLimits)
		}
	}
	res := simrt.Run(t, simConfig(spec.Sim), simSource(spec), func(s *simrt.Sim) {
		env.boot()
		if m.fatal {
			// Once a fatal interrupt has made the product cancel the context,
			// every other core has to stop within the C10 step bound.
			env.ctx.OnCancel = func() {}
		}
		if twinEnv != nil {
			s.GoNamed("twin-host", true, func() {
				twinEnv.boot()
				twinEnv.vm.SpawnAsync(runtime.MainFn(), nil, nil, nil)
				num, i := twinEnv.vm.Wait()
				twinGot = classify(num, i)
				twinDone = true
			})
		}
		env.vm.SpawnAsync(runtime.MainFn(), nil, nil, nil)
		if d := spec.P("wait_delay_ms", 0); d > 0 {
			// the host does something else before it waits: the program may be over by then
			simrt.SleepFor(time.Duration(d) * time.Millisecond)
		}
		s.SetDeadline("wait-returns", 3600e9)
		if m.handshake {
			// every spawned function runs to completion: a core that spins on a value another
			// core has long written never does
			s.ArmStepBound("handshake-completes", 4_000_000)
		}
		num, i := env.vm.Wait()
		s.ClearDeadline("wait-returns")
		got = classify(num, i)
		atReturn = env.out.Lines()
		if m.chunked {
			atReturn = env.out.Texts()
		}
		returned = true
		s.Logf("Wait returned %s core=%d", got.Kind, num)
		if m.fatal {
			s.Fault("worker-fatal-interrupt:" + got.Kind)
			s.ArmStepBound("after-fatal-interrupt", stepBoundAfterStop)
		}
	})
	v.absorb(P, res)
	v.Output = env.out.Lines()
	if v.Class != "" {
		return v
	}
	if !returned {
		v.fail(P, "infra", "", "", "host did not return and the simulator reported nothing")
		return v
	}
	if twinEnv != nil {
		if !twinDone {
			v.fail(P, "wrong-result", "wait-result", "twin-vm:not-finished", "a second VM running next to this one in the same process did not finish")
			return v
		}
		if twinGot.Kind != "completed" {
			v.fail(P, "wrong-result", "wait-result", "twin-vm:"+twinGot.Kind, fmt.Sprintf("a second VM running next to this one returned %s (%s)", twinGot.Kind, firstLine(twinGot.Msg)))
			return v
		}
		if d := diffMultiset(multiset(twinEnv.out.Lines()), twinModel.lines); d != "" {
			v.fail(P, "wrong-result", "output-multiset", "twin-vm", "output of a second VM running next to this one differs from its model: "+d)
			return v
		}
	}
	final := env.out.Lines()
	if m.chunked {
		final = env.out.Texts()
	}
	if pf := spec.F("print_fail_at", 0); pf > 0 && env.out.Writes < pf {
		m.fatal = false // the program printed fewer lines than the fault index: an ordinary run
	}
	if !m.fatal {
		if got.Kind != "completed" {
			v.fail(P, "wrong-result", "wait-result", "shape"+fmt.Sprint(spec.P("shape", 0))+":"+got.Kind, fmt.Sprintf("Wait returned %s (%s) for a program whose cores all complete", got.Kind, firstLine(got.Msg)))
			return v
		}
		// (b) at the instant Wait returns, every worker's final line has been received.
		have := multiset(atReturn)
		var missing []string
		for _, f := range m.finals {
			if have[f] == 0 {
				missing = append(missing, f)
			}
		}
		if len(missing) > 0 {
			sort.Strings(missing)
			v.fail(P, "wrong-result", "wait-returns-after-all-cores", "shape"+fmt.Sprint(spec.P("shape", 0)), fmt.Sprintf("Wait returned nil before %d core(s) had finished; final lines not yet received: %v", len(missing), firstK(missing, 4)))
			return v
		}
		// (a) every line exactly once, whole, with the spawn-time argument values.
		if d := diffMultiset(multiset(final), m.lines); d != "" {
			v.fail(P, "wrong-result", "output-multiset", "shape"+fmt.Sprint(spec.P("shape", 0)), "output differs from the model: "+d)
			return v
		}
		// each print whole: the lines of one print follow one another directly
		pos := map[string]int{}
		for i, l := range final {
			pos[l] = i
		}
		for _, r := range m.records {
			for j := 1; j < len(r); j++ {
				if pos[r[j]] != pos[r[0]]+j {
					v.fail(P, "wrong-result", "print-whole", "shape"+fmt.Sprint(spec.P("shape", 0)), fmt.Sprintf("the lines of one print were separated: %q is at line %d, %q at line %d", r[0], pos[r[0]], r[j], pos[r[j]]))
					return v
				}
			}
		}
	} else {
		// (c) Wait returns an interrupt one of the cores actually raised.
		if !m.badKinds[got.Kind] {
			v.fail(P, "wrong-result", "wait-result", "fatal:"+got.Kind, fmt.Sprintf("Wait returned %s (%s); expected the failing core's fatal interrupt %v", got.Kind, firstLine(got.Msg), keys(m.badKinds)))
			return v
		}
		// ... with that core's number: workers are spawned by main in order, so worker i is core 2+i
		// ... an interrupt that one of the failing cores actually raised: its message names the worker.
		// (How cores are numbered is not part of the property, so the reported number is only probed.)
		if m.failMsgByCore {
			okMsg := false
			for c := range m.badCores {
				okMsg = okMsg || strings.Contains(firstLine(got.Msg), fmt.Sprintf("boom%d", int(c)-2))
			}
			if !okMsg {
				v.fail(P, "wrong-result", "wait-result-core", "fatal:message", fmt.Sprintf("Wait reported the message %q, which none of the failing workers %v raises", firstLine(got.Msg), coreList(m.badCores)))
				return v
			}
		}
		if !anyCore && !m.badCores[got.CoreNum] {
			res.Probes["reported-core-number-not-spawn-order"]++
		}
		for _, l := range final {
			if !m.prefixOK[l] {
				v.fail(P, "wrong-result", "output-multiset", "fatal", fmt.Sprintf("unexpected line %q", l))
				return v
			}
		}
		for l, c := range multiset(final) {
			if c > 1 {
				v.fail(P, "wrong-result", "output-multiset", "fatal", fmt.Sprintf("line %q printed %d times", l, c))
				return v
			}
		}
	}
	// (b)/(C10.5) nothing is left running or blocked once the scheduler has drained.
	v.leftover(P, res)
	return v
}

func firstLine(s string) string {
	if i := strings.IndexByte(s, '\n'); i >= 0 {
		return s[:i]
	}
	return s
}

func firstK(s []string, k int) []string {
	if len(s) > k {
		return s[:k]
	}
	return s
}

func keys(m map[string]bool) []string {
	var out []string
	for k := range m {
		out = append(out, k)
	}
	sort.Strings(out)
	return out
}

// stepBoundAfterStop: B of DESIGN §3 (the code's own figure is 50 instructions).
const stepBoundAfterStop = 200_000

func init() {
	planners["C17"] = planC17
	shrinkers["C17"] = func(s RunSpec) []RunSpec {
		return genericShrink(s, map[string]int{"n": 1, "iters": 1, "main_late": 0, "at": 0, "nbad": 1}, nil)
	}
}

// c17ClosurePrograms: closures that capture a local, handed to a spawn in different guises.
var c17ClosurePrograms = []string{
	`fn g(cb: fn() -> null) { cb(); }
fn main() { let n = 42; spawn g(fn() -> null { println("ticks:", n); }); }`,
	`fn g(cb: fn() -> null) { cb(); }
fn main() { let n = 42; let cb = fn() -> null { println("ticks:", n); }; spawn g(cb); }`,
	`fn tick() { println("tick"); }
fn g(cb: fn() -> null) { cb(); }
fn main() { let n = 42; let tick = fn() -> null { println("ticks:", n); }; spawn g(tick); }`,
	`fn g(id: int, cb: fn() -> null) { cb(); println(id); }
fn main() { let n = [1]; let cb = fn() -> null { n.push(2); }; for i in 0..2 { spawn g(i, cb); } }`,
}

func planC17(t *testing.T, tier string, seed uint64) ([]RunSpec, error) {
	var plan []RunSpec
	for k := range c17ClosurePrograms {
		plan = append(plan, RunSpec{Property: "C17", Workload: "c17/closure-to-spawn-rejected", Params: map[string]int{"reject": k}, Sim: SimParams{StepCostNs: 100}, Choices: &simrt.Sparse{}})
	}
	perCell := 24
	ns := []int{1, 2, 3, 5, 8}
	sweepCap := 150
	if !quick(tier) {
		perCell = 4000
		ns = []int{1, 2, 3, 4, 5, 6, 7, 8}
		sweepCap = 0
	}
	idx := 0
	for shape := 0; shape <= 14; shape++ {
		for _, n := range ns {
			for late := 0; late < 3; late++ {
				base := RunSpec{Property: "C17", Workload: fmt.Sprintf("c17/shape%d", shape), Params: map[string]int{"shape": shape, "n": n, "iters": 1 + (n+late)%3, "main_late": late}}
				if shape == 7 && n > 4 {
					continue
				}
				if shape == 10 {
					base.Params["g"] = int(simrt.Mix(seed, uint64(n), uint64(late)) % 100000)
				}
				if shape == 3 {
					base.Params["at"] = late
					base.Params["fail_kind"] = n % 3
					base.Params["nbad"] = 1 + n/5
				}
				for k := 0; k < perCell; k++ {
					s := base.clone()
					if k%8 == 2 {
						s.Params["twin"] = 1
					}
					if k%6 == 5 {
						// a host that does other work between starting the program and waiting for it
						s.Params["wait_delay_ms"] = []int{1, 5, 40}[(k/6)%3]
					}
					s.Sim = swarm(seed, idx)
					if k%5 == 3 && shape != 7 && shape != 3 && shape != 13 {
						// (not the handshake shape, whose cores spin on each other's writes, nor the shape with
						// endless loopers next to the failing worker)
						s.Sim = withPCT(s.Sim, seed, idx)
					}
					s.Seed = runSeed(seed, idx)
					idx++
					plan = append(plan, s)
				}
				// single-deviation sweeps on the small cells
				if n <= 3 && (quick(tier) && late == 0 && n >= 2 || !quick(tier)) {
					b := base.clone()
					b.Sim = SimParams{StepCostNs: 1000}
					cap := sweepCap
					if cap > 0 && (shape == 1 || shape == 2) {
						cap = 4 * sweepCap // the shapes in which several cores spawn at overlapping times
					}
					plan = append(plan, sweep(t, b, cap, nil)...)
					if shape == 1 || shape == 2 {
						// the same sweep with expensive steps: the host's 5 ms polls then fall between the
						// completions of individual cores instead of after all of them
						bs := base.clone()
						bs.Sim = SimParams{StepCostNs: 100000}
						plan = append(plan, sweep(t, bs, cap, nil)...)
					}
					b2 := base.clone()
					b2.Sim = SimParams{StepCostNs: 1000, Quantum: []int64{8, 64}}
					if !quick(tier) {
						plan = append(plan, sweep(t, b2, 600, nil)...)
						plan = append(plan, sweep2(t, b, 400, simrt.Mix(seed, uint64(shape), uint64(n), uint64(late)))...)
					}
				}
			}
		}
	}
	// host print errors in the middle of a fan-out
	npf := 120
	if !quick(tier) {
		npf = 40000
	}
	for k := 0; k < npf; k++ {
		s := RunSpec{Property: "C17", Workload: "c17/print-fault", Params: map[string]int{"shape": []int{0, 4, 5}[k%3], "n": 2 + k%4, "iters": 2, "main_late": k % 3}, Fault: map[string]int{"print_fail_at": 1 + k%7}}
		s.Sim = swarm(seed, 700000+k)
		s.Seed = runSeed(seed, 700000+k)
		plan = append(plan, s)
	}
	// clause (e): free-mode runs under the race detector
	nfree := 48
	if !quick(tier) {
		nfree = 4000
	}
	for k := 0; k < nfree; k++ {
		ps := map[string]int{"free": 1, "n": 1 + k%8, "iters": []int{5, 30, 120}[k%3], "gomaxprocs": []int{2, 4, 16}[(k/3)%3]}
		wl := "c17/free-race"
		if k%4 == 3 {
			ps["fatal"] = 1
			wl = "c17/free-race-fatal"
		} else if k%4 == 2 {
			ps["free_shape"] = []int{0, 1, 2, 4, 5, 9, 11, 12}[(k/4)%8]
			ps["main_late"] = (k / 32) % 3
			wl = fmt.Sprintf("c17/free-race-shape%d", ps["free_shape"])
		} else if k%4 == 1 {
			ps["shared"] = 1 + (k/4)%3
			wl = "c17/free-race-shared-" + []string{"", "list", "object", "readers"}[ps["shared"]]
		}
		plan = append(plan, RunSpec{Property: "C17", Workload: wl, Params: ps, Seed: runSeed(seed, 900000+k)})
	}
	return plan, nil
}

func coreList(m map[uint]bool) []int {
	var out []int
	for k := range m {
		out = append(out, int(k))
	}
	sort.Ints(out)
	return out
}

// genReference: the value e<which>(arg) of a generated program returns when it is the only thing running
// on a fresh VM. All (function, argument) pairs of one generator seed are computed in one small simulation of
// their own (default schedule, fake clock) the first time the seed is used; this must happen outside any
// other simulation, so callers ask before they start theirs.
type genTable struct {
	vals map[[2]int]int64
	errs map[[2]int]string
	err  string
}

var genTables = map[uint64]*genTable{}

const genArgs = 13

func genReference(t *testing.T, gseed uint64, src string, which, arg int) (int64, string) {
	tb, ok := genTables[gseed]
	if !ok {
		if simrt.Active() != nil {
			return 0, "infra: reference table requested inside a simulation"
		}
		if len(genTables) > 3000 {
			genTables = map[uint64]*genTable{}
		}
		tb = &genTable{vals: map[[2]int]int64{}, errs: map[[2]int]string{}}
		genTables[gseed] = tb
		prog, err := MustCompile(Single(src + "fn main() {}\n"))
		if err != nil {
			tb.err = "does not compile: " + err.Error()
		} else {
			nfn := 0
			for _, f := range prog.an.Modules["main"].Functions {
				if strings.HasPrefix(f.Ident.Ident(), "e") {
					nfn++
				}
			}
			res := simrt.Run(t, simrt.DefaultConfig(), &simrt.ReplaySource{}, func(s *simrt.Sim) {
				for k := 0; k < nfn; k++ {
					for a := 0; a < genArgs; a++ {
						env := newVMEnv(prog, generousLimits)
						env.boot()
						inv, ierr := c16Invocation(prog, fmt.Sprintf("e%d", k), []value.Value{vInt(int64(a))})
						if ierr != nil {
							tb.errs[[2]int{k, a}] = ierr.Error()
							continue
						}
						r := env.vm.SpawnSync(inv, nil, nil)
						if r.Exception != nil {
							tb.errs[[2]int{k, a}] = "reference run: " + classify(r.Exception.CoreNum, &r.Exception.Interrupt).Kind
							continue
						}
						if iv, ok := r.ReturnValue.(value.ValueInt); ok {
							tb.vals[[2]int{k, a}] = iv.Inner
						} else {
							tb.errs[[2]int{k, a}] = "reference call did not return an int"
						}
					}
				}
			})
			if res.Outcome != "ok" {
				tb.err = "reference run: " + res.Outcome + " " + res.Detail
			}
		}
	}
	if tb.err != "" {
		return 0, tb.err
	}
	if e, bad := tb.errs[[2]int{which, arg}]; bad {
		return 0, e
	}
	v, ok := tb.vals[[2]int{which, arg}]
	if !ok {
		return 0, "reference value missing"
	}
	return v, ""
}
