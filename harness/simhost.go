package harness

// The simulated host: everything the product reaches the outside world
// through. Every call is a history event and a scheduling point, and can be
// made to fail on a simulator-chosen call.

import (
	"time"
	"context"
	"errors"
	"fmt"
	"runtime"
	"strings"
	"sync"
	"sync/atomic"

	hms "github.com/smarthome-go/homescript/v3/homescript"
	"github.com/smarthome-go/homescript/v3/homescript/analyzer"
	"github.com/smarthome-go/homescript/v3/homescript/analyzer/ast"
	"github.com/smarthome-go/homescript/v3/homescript/diagnostic"
	herrors "github.com/smarthome-go/homescript/v3/homescript/errors"
	ivalue "github.com/smarthome-go/homescript/v3/homescript/interpreter/value"
	pAst "github.com/smarthome-go/homescript/v3/homescript/parser/ast"
	"github.com/smarthome-go/homescript/v3/homescript/runtime/value"
	"verif.local/simrt"
)

// ---------------------------------------------------------------- output

// Out collects what the program wrote, with the task that wrote it and the
// scheduler sequence number. Only the running task touches it.
type Out struct {
	Chunks []Chunk
	// FailAt: the n-th WriteStringTo (1-based) returns an error; 0 = never.
	FailAt int
	Writes int
	// CancelAt: during the n-th WriteStringTo the host cancels the execution context, synchronously,
	// from inside the host call (an exit()-style builtin); 0 = never. onCancel is set by whoever owns the context.
	CancelAt int
	onCancel func()
	mu       *sync.Mutex // free mode only: the host's own lock around its buffer
}

type Chunk struct {
	Task int
	Text string
}

func (o *Out) Text() string {
	var b strings.Builder
	for _, c := range o.Chunks {
		b.WriteString(c.Text)
	}
	return b.String()
}

// Texts returns what was written, write by write.
func (o *Out) Texts() []string {
	var out []string
	for _, c := range o.Chunks {
		out = append(out, c.Text)
	}
	return out
}

// Lines splits the concatenated output into lines (without the final empty one).
func (o *Out) Lines() []string {
	t := o.Text()
	if t == "" {
		return nil
	}
	l := strings.Split(t, "\n")
	if l[len(l)-1] == "" {
		l = l[:len(l)-1]
	}
	return l
}

func (o *Out) write(s string) error {
	if o.mu != nil {
		o.mu.Lock()
		defer o.mu.Unlock()
	}
	o.Writes++
	sim := simrt.Active()
	if o.FailAt > 0 && o.Writes == o.FailAt {
		if sim != nil {
			sim.Fault("host-print-error")
			sim.Logf("host print #%d FAILS", o.Writes)
			sim.Yield("host:print")
		}
		return errors.New("simulated host write failure")
	}
	id := -1
	if sim != nil {
		id = sim.CurID()
		sim.Logf("print %q", s)
	}
	o.Chunks = append(o.Chunks, Chunk{id, s})
	if o.CancelAt > 0 && o.Writes == o.CancelAt && o.onCancel != nil {
		if sim != nil {
			sim.Fault("host-cancels-inside-host-call")
		}
		o.onCancel()
	}
	if sim != nil {
		sim.Yield("host:print")
	}
	return nil
}

// ---------------------------------------------------------------- VM executor

type VMExec struct {
	Out      *Out
	Triggers *[]string
	// extra builtin imports (module -> name -> value)
	Builtins map[string]map[string]value.Value
	inner    hms.TestingVmExecutor
}

func NewVMExec(out *Out) VMExec {
	return VMExec{Out: out, Triggers: new([]string), Builtins: map[string]map[string]value.Value{}}
}

func (e VMExec) LoadSingleton(singletonIdent, moduleName string) (value.Value, bool, error) {
	return nil, false, nil
}
func (e VMExec) Free() error { return nil }
func (e VMExec) GetBuiltinImport(moduleName string, toImport string) (value.Value, bool) {
	if m, ok := e.Builtins[moduleName]; ok {
		if v, ok := m[toImport]; ok {
			return v, true
		}
	}
	return e.inner.GetBuiltinImport(moduleName, toImport)
}
func (e VMExec) ResolveModuleCode(moduleName string) (string, bool, error) {
	return "", false, errors.New("the runtime never resolves module code")
}
func (e VMExec) WriteStringTo(input string) error { return e.Out.write(input) }
func (e VMExec) RegisterTrigger(cb string, ev string, span herrors.Span, args []value.Value) error {
	parts := []string{cb, ev}
	for _, a := range args {
		d, _ := a.Display()
		parts = append(parts, d)
	}
	*e.Triggers = append(*e.Triggers, strings.Join(parts, "|"))
	simrt.Yield("host:trigger")
	return nil
}

// ---------------------------------------------------------------- interpreter executor

type TreeExec struct {
	Out   *Out
	inner hms.TestingTreeExecutor
}

func (e TreeExec) GetBuiltinImport(moduleName string, toImport string) (ivalue.Value, bool) {
	return e.inner.GetBuiltinImport(moduleName, toImport)
}
func (e TreeExec) ResolveModuleCode(moduleName string) (string, bool, error) {
	return "", false, errors.New("the runtime never resolves module code")
}
func (e TreeExec) WriteStringTo(input string) error { return e.Out.write(input) }
func (e TreeExec) GetUser() string                  { return "sim" }
func (e TreeExec) LoadSingleton(ident string, typ ast.Type) (*ivalue.Value, bool, *ivalue.Interrupt) {
	return nil, false, nil
}

// ---------------------------------------------------------------- analyzer host

// Provider serves module text from memory. Fault: the n-th lookup (1-based,
// counted over ResolveCodeModule and GetBuiltinImport) fails in the given way.
type Provider struct {
	Modules map[string]string
	st      *providerState
}

type providerState struct {
	calls     int
	FailAt    int
	FailKind  string // "error" | "notfound"
	Resolved  []string
	FaultHits int
}

func NewProvider(mods map[string]string) Provider {
	return Provider{Modules: mods, st: &providerState{}}
}

func (p Provider) SetFault(at int, kind string) { p.st.FailAt, p.st.FailKind = at, kind }
func (p Provider) FaultHits() int               { return p.st.FaultHits }
func (p Provider) Calls() int                   { return p.st.calls }

func (p Provider) GetKnownObjectTypeFieldAnnotations() []string { return []string{} }
func (p Provider) PostValidationHook(map[string]ast.AnalyzedProgram, string, *analyzer.Analyzer, bool) []diagnostic.Diagnostic {
	return nil
}

func (p Provider) ResolveCodeModule(moduleName string) (string, bool, error) {
	p.st.Resolved = append(p.st.Resolved, moduleName)
	if _, have := p.Modules[moduleName]; !have && p.st.FailKind == "notfound" {
		// "not found" is simply true for a name that is no script module (a builtin module is looked
		// up as a script module first): answering it is not a fault
		return "", false, nil
	}
	p.st.calls++
	if p.st.FailAt == p.st.calls {
		p.st.FaultHits++
		if s := simrt.Active(); s != nil {
			s.Fault("host-resolve-" + p.st.FailKind)
		}
		if p.st.FailKind == "error" {
			return "", false, errors.New("simulated host lookup failure")
		}
		return "", false, nil
	}
	code, ok := p.Modules[moduleName]
	return code, ok, nil
}

func (p Provider) GetBuiltinImport(moduleName, valueName string, span herrors.Span, kind pAst.IMPORT_KIND) (analyzer.BuiltinImport, bool, bool) {
	p.st.calls++
	if p.st.FailAt == p.st.calls {
		p.st.FaultHits++
		if s := simrt.Active(); s != nil {
			s.Fault("host-builtin-" + p.st.FailKind)
		}
		if p.st.FailKind == "error" {
			return analyzer.BuiltinImport{}, false, false
		}
		return analyzer.BuiltinImport{}, true, false
	}
	return hms.TestingAnalyzerHost{}.GetBuiltinImport(moduleName, valueName, span, kind)
}

// ---------------------------------------------------------------- context

// Ctx wraps a cancellable context. Every Done() call is a counted poll, a
// scheduling point, and the place where the simulator may fire the host's
// cancel ("cancel at the k-th poll").
type Ctx struct {
	context.Context
	cancel   context.CancelFunc
	polls    atomic.Int64
	CancelAt int64 // fire cancel when the poll counter reaches this value (1-based); 0 = never
	OnCancel func()
	fired    bool
}

func NewCtx() *Ctx {
	inner, cancel := context.WithCancel(context.Background())
	return &Ctx{Context: inner, cancel: cancel}
}

// WithDeadline gives the context a deadline as well (context.WithDeadline). It has to be called inside the
// simulation (the timer belongs to the fake clock) and before the context is handed to the product.
func (c *Ctx) WithDeadline(d time.Duration) {
	inner, cancel := context.WithDeadline(context.Background(), time.Now().Add(d))
	c.Context, c.cancel = inner, cancel
}

func (c *Ctx) Polls() int64 { return c.polls.Load() }

// ResetPolls restarts the poll counter (polls made while the VM is constructed
// are not part of "the run": NewVM deliberately panics on a failed initialiser).
func (c *Ctx) ResetPolls() { c.polls.Store(0) }
func (c *Ctx) Fired() bool  { return c.fired }

// Fire cancels the context now (host action).
func (c *Ctx) Fire(why string) {
	if c.fired {
		return
	}
	c.fired = true
	if s := simrt.Active(); s != nil {
		s.Logf("host cancels (%s) at poll %d", why, c.polls.Load())
	}
	c.cancel()
	if c.OnCancel != nil {
		c.OnCancel()
	}
}

func (c *Ctx) Done() <-chan struct{} {
	n := c.polls.Add(1)
	if c.CancelAt > 0 && n == c.CancelAt {
		if s := simrt.Active(); s != nil {
			// where did the cancel land? (reach probe)
			if pc, _, _, ok := runtime.Caller(1); ok {
				fn := runtime.FuncForPC(pc).Name()
				switch {
				case strings.Contains(fn, "checkCancelationVM"), strings.Contains(fn, "checkCancelationTree"):
					s.Probe("cancel-landed-in-sleep-builtin")
				case strings.Contains(fn, "runtime.(*Core).checkCancelation"):
					s.Probe("cancel-landed-at-vm-cycle-boundary")
				case strings.Contains(fn, "interpreter.(*Interpreter).checkCancelation"):
					s.Probe("cancel-landed-in-interpreter-poll")
				default:
					s.Probe("cancel-landed-elsewhere")
				}
			}
		}
		c.Fire(fmt.Sprintf("k=%d", n))
	}
	simrt.Yield("poll")
	return c.Context.Done()
}

// AsContext returns the pair of pointers the product's API wants.
func (c *Ctx) AsContext() (*context.Context, *context.CancelFunc) {
	var ctx context.Context = c
	var cf context.CancelFunc = func() {
		if s := simrt.Active(); s != nil {
			s.Logf("product calls CancelFunc")
		}
		c.cancel()
	}
	return &ctx, &cf
}
